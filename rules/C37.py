"""C37 Credential reset links are single use.

Decided (DESIGN.md C37), on the HIR of idm::credupdatesession:
 K4-exchange    exchange_intent_credential_update: the table over the stored intent state has Consumed → Err and missing → Err; the new update
                session is created only after `now >= max_ttl → Err`, and after the stored state was rewritten (ok(internal_modify)) to
                InProgress carrying the *new* session id (fresh uuid_from_duration value, the same one handed to create_credupdate_session).
 K4-commit      commit_credential_update: when the session came from an intent token, every stored state other than InProgress → Err and
                InProgress continues only if its session_id equals the committing session's id; only then Consumed is written; the
                database write lies behind that table.
 K4-cancel      cancel_credential_update: same table, then writes Valid (never Consumed).
 K1-consumed    who-may-construct IntentTokenState::Consumed: commit (above), the administrative revoke_credential_update_intent, and the
                storage decoder from_dbvs2 (reads a stored Consumed back) — nobody else; InProgress only by exchange (+ decoder).
Not decided: interleavings across servers (replication of the state attribute), expiry arithmetic, session-token cryptography.
"""
from .lib.hir import *
from .lib.x_g6auth import *
from .lib import pathcond as pc

META = dict(
    technique="static decision-table (K4) and who-may-construct (K1) rules over type-checked HIR",
    level_text="The three transition functions of the reset-link state machine are extracted as tables (stored state → Err / continue / state written) "
               "and compared with the specification; every construction site of the Consumed and InProgress states in the workspace is enumerated. "
               "This covers every interleaving of exchange/commit/cancel on one server structurally, since each step's precondition is decided per state.",
    level_note="Decides the per-state transition table of exchange / commit / cancel and the writers of Consumed / InProgress. Not decided: "
               "multi-server interleavings (replication), TTL arithmetic, confidentiality of the session token. Trusted: rustc resolution, rule tables.",
)

LIB = "kanidmd_lib"
CORE = "kanidmd_core"
CU = "kanidmd_lib::idm::credupdatesession::<impl idm::server::IdmServerProxyWriteTransaction<'_>>::"
ITS = "kanidmd_lib::value::IntentTokenState::"
DECODER = "kanidmd_lib::valueset::cred::ValueSetIntentToken::from_dbvs2"
SOME = "core::option::Option::Some"
NONE = "core::option::Option::None"


def state_match(body):
    """`match <..>.credential_update_intent_tokens.get(..) { .. }`"""
    def pred(m):
        s = unwrap(m["scrut"])
        return s.get("e") == "mcall" and s.get("name") == "get" and has_token(tokens(s["recv"]), "field", "credential_update_intent_tokens")
    return find_matches(body, pred)


def alt_state(alt):
    """'None' | variant name of Some(IntentTokenState::X) | '_' for a catch-all | '?'"""
    alt = strip_ref(alt)
    if is_catch_all(alt):
        return "_"
    d = pat_def(alt)
    if d == NONE:
        return "None"
    if d == SOME and alt.get("p") == "tstruct" and len(alt["pats"]) == 1:
        inner = strip_ref(alt["pats"][0])
        if is_catch_all(inner):
            return "Some(_)"
        di = pat_def(inner)
        if di.startswith(ITS):
            return di[len(ITS):]
    return "?"


def arms_for_state(m, state):
    """Arms that may be selected when the stored state is `state` ('None', 'Consumed', 'Valid', 'InProgress')."""
    out = []
    for a in m["arms"]:
        names = {alt_state(x) for x in top_alternatives(a["pat"])}
        hit = state in names or "_" in names or "?" in names or (state != "None" and "Some(_)" in names)
        if hit:
            out.append(a)
            if "guard" not in a:
                break
    return out


def rejects_with_err(arm):
    b = arm["body"]
    if not always_diverges(b):
        return False
    rets = returns_in(b)
    return bool(rets) and all("x" in r and constructs_any(r["x"], "core::result::Result::Err") and not constructs_any(r["x"], "core::result::Result::Ok") for r in rets)


def check_table(ctx, rule, fn, m, reject_states, label):
    for st in reject_states:
        arms = arms_for_state(m, st)
        ok = bool(arms) and all(rejects_with_err(a) for a in arms)
        ctx.check(ok, rule, fn["fn"], f"{label}:{st}=>Err", f"stored state {st} -> return Err",
                  f"when the stored reset-link state is {st} the function must return Err on every path, but arm "
                  f"`{pat_s(arms[0]['pat'])[:80] if arms else '?'}` can continue — "
                  + ("a consumed or unknown link could be exchanged again" if label == "exchange" else
                     "a session whose link was consumed, reset to Valid or removed could still " + label),
                  file=fn["file"], line=(arms[0]["body"].get("line") if arms else m.get("line")))


def inprogress_requires_own_session(ctx, rule, fn, m, label):
    arms = arms_for_state(m, "InProgress")
    ok = bool(arms)
    why = "no arm for InProgress"
    for a in arms:
        ids = set(bound_locals(a["pat"], "session_id"))
        f = pc.f_not(pc.div(a["body"]))
        lits = pc.implied([f], pc.collect_binds(fn["body"]))
        good = False
        for (p, leaf) in lits.values():
            if leaf[1] != "expr":
                continue
            e = unwrap(leaf[2])
            if e.get("e") != "bin" or e["op"] not in ("==", "!="):
                continue
            want_pol = (e["op"] == "==")
            sides = (e["l"], e["r"])
            mine = any(locals_in(x) & ids for x in sides)
            other = any(has_token(tokens(x), "field", "sessionid") and not (locals_in(x) & ids) for x in sides)
            if p == want_pol and mine and other and ids:
                good = True
        if not good:
            ok = False
            why = f"arm `{pat_s(a['pat'])[:70]}` continues without requiring stored session_id == committing session id"
    ctx.check(ok, rule, fn["fn"], f"{label}:InProgress-needs-own-session", "InProgress continues only when session_id == this session's id",
              f"{why} — a reset session superseded by a later exchange of the same link could still {label}", file=fn["file"],
              line=(arms[0]["body"].get("line") if arms else m.get("line")))


def run(ctx):
    F = ctx.facts
    ctx.explanation = ("Reset-link state machine: exchange rejects Consumed / missing / expired and rewrites the state to InProgress{new session}; commit and "
                       "cancel continue only from InProgress of their own session, commit then writes Consumed, cancel writes Valid; Consumed has no other "
                       "writer than the administrative revoke (and the storage decoder).")
    ex = ctx.fn(LIB, CU + "exchange_intent_credential_update")
    cm = ctx.fn(LIB, CU + "commit_credential_update")
    ca = ctx.fn(LIB, CU + "cancel_credential_update")
    rv = ctx.fn(LIB, CU + "revoke_credential_update_intent")

    # ---- K4-exchange ----------------------------------------------------------------------------------
    ms = state_match(ex["body"])
    if ctx.check(len(ms) == 1, "K4-exchange", ex["fn"], "table-found", "match over the stored intent state",
                 f"expected exactly one `match ..credential_update_intent_tokens.get(..)` in exchange, found {len(ms)} (shape not understood)",
                 file=ex["file"], line=ex["line"]):
        m = ms[0]
        check_table(ctx, "K4-exchange", ex, m, ("Consumed", "None"), "exchange")
        ctx.sample("exchange: " + "; ".join(f"{'|'.join(sorted({alt_state(x) for x in top_alternatives(a['pat'])}))} -> {'Err' if rejects_with_err(a) else 'continue'}" for a in m["arms"]))
        inits = binding_inits(ex["body"])
        ct_ids = {p["pat"]["local"] for p in ex["params"] if p["ty"].endswith("time::Duration") and p["pat"].get("p") == "bind"}
        # locals bound by the statement that holds the table (max_ttl, perms)
        table_locals = set()
        for n in walk(ex["body"]):
            if n.get("s") == "let" and "init" in n and any(x is m for x in walk(n["init"])):
                table_locals |= set(bound_locals(n["pat"]))

        def not_expired(s):
            def ge(l):
                e = unwrap(l[2])
                return e.get("e") == "bin" and e["op"] in (">=", ">") and bool(deep_locals(e["l"], inits) & ct_ids) and bool(locals_in(e["r"]) & table_locals)

            def lt(l):
                e = unwrap(l[2])
                return e.get("e") == "bin" and e["op"] in ("<", "<=") and bool(deep_locals(e["l"], inits) & ct_ids) and bool(locals_in(e["r"]) & table_locals)
            return s.holds(False, ge, ("expr",)) or s.holds(True, lt, ("expr",))

        def past_table(s):
            neg = [leaf for p, leaf in s.leaves(False, ("arm",)) if leaf[2][0] is m["scrut"] or ex_s(leaf[2][0]) == ex_s(m["scrut"])]
            states = set()
            for leaf in neg:
                states |= {alt_state(x) for x in top_alternatives(leaf[2][1])}
            return {"Consumed", "None"} <= states
        creates = sites(ex["body"], call_sink(CU + "create_credupdate_session"))
        ctx.floor("K4-exchange", "create_credupdate_session calls in exchange", len(creates), 1)
        writes = sites(ex["body"], lambda n: n.get("e") == "struct" and def_of(n) == ITS + "InProgress")
        ctx.floor("K4-exchange", "InProgress constructions in exchange", len(writes), 1)
        for i, s in enumerate(creates + writes):
            what = "session-created" if i < len(creates) else "writes-InProgress"
            idx = i if i < len(creates) else i - len(creates)
            sfx = f"#{idx}" if idx else ""
            ctx.check(past_table(s), "K4-exchange", ex["fn"], f"{what}-after-state-table{sfx}", "behind Consumed/None => Err",
                      f"{what} is reachable without having passed the stored-state table (Consumed → Err, missing → Err); guards: {s.render()}",
                      file=ex["file"], line=s.line)
            ctx.check(not_expired(s), "K4-exchange", ex["fn"], f"{what}-after-ttl-check{sfx}", "behind `now >= max_ttl => Err`",
                      f"{what} is reachable without the `now >= max_ttl → Err` test on the link's max_ttl — an expired reset link could be exchanged; guards: {s.render()}",
                      file=ex["file"], line=s.line)
        for i, s in enumerate(creates):
            ctx.check(s.has(True, lambda l: leaf_has(l, "call", "internal_modify"), ("ok",)), "K4-exchange", ex["fn"],
                      "session-created-after-state-written" + (f"#{i}" if i else ""), "behind ok(internal_modify(InProgress..))",
                      "the update session is created without the InProgress state having been written successfully first — an earlier session would not be superseded",
                      file=ex["file"], line=s.line)
        # new session id
        binds = pc.collect_binds(ex["body"])
        for i, s in enumerate(writes):
            sid = [f["x"] for f in s.node["fields"] if f["f"] == "session_id"]
            su = unwrap(sid[0]) if sid else {}
            lid = su["res"].get("local") if su.get("e") == "path" else None
            fresh = lid in binds and has_token(tokens(binds[lid]), "call", "uuid_from_duration")
            handed = any(any(unwrap(a).get("e") == "path" and unwrap(a)["res"].get("local") == lid for a in c.node["args"]) for c in creates)
            old_ids = set()
            for a in m["arms"]:
                old_ids |= set(bound_locals(a["pat"], "session_id"))
            ctx.check(bool(lid) and fresh and handed and lid not in old_ids, "K4-exchange", ex["fn"], "InProgress-carries-new-session" + (f"#{i}" if i else ""),
                      "session_id is a fresh uuid_from_duration value, the one given to create_credupdate_session",
                      "the InProgress state written by exchange does not carry the id of the newly created session (fresh uuid_from_duration value that is also "
                      "passed to create_credupdate_session) — commit could not tell the superseded session from the new one", file=ex["file"], line=s.line)

    # ---- K4-commit / K4-cancel --------------------------------------------------------------------------
    for fn, rule, label, writes_state, forbidden in ((cm, "K4-commit", "commit", "Consumed", ("Valid", "InProgress")),
                                                     (ca, "K4-cancel", "cancel", "Valid", ("Consumed", "InProgress"))):
        ms = state_match(fn["body"])
        if not ctx.check(len(ms) == 1, rule, fn["fn"], "table-found", "match over the stored intent state",
                         f"expected exactly one `match ..credential_update_intent_tokens.get(..)` in {label}, found {len(ms)} (shape not understood)",
                         file=fn["file"], line=fn["line"]):
            continue
        m = ms[0]
        check_table(ctx, rule, fn, m, ("Consumed", "Valid", "None"), label)
        inprogress_requires_own_session(ctx, rule, fn, m, label)
        ctx.sample(f"{label}: " + "; ".join(f"{'|'.join(sorted({alt_state(x) for x in top_alternatives(a['pat'])}))} -> {'Err' if rejects_with_err(a) else 'continue'}" for a in m["arms"]))
        # the table is consulted whenever the session came from an intent token
        ms_site = sites_of_nodes(fn["body"], [m])
        intent_guard = bool(ms_site) and ms_site[0].arm(lambda sc, p: has_token(tokens(sc), "field", "intent_token_id") and all(pat_def(x) == SOME for x in top_alternatives(p))) is not None
        extra = [k for (p, k) in (ms_site[0].lits.keys() if ms_site else []) if k.startswith("expr:")]
        ctx.check(intent_guard, rule, fn["fn"], f"{label}:table-under-intent-token", "table consulted under `if let Some(id) = session.intent_token_id`",
                  "the stored-state table is not consulted for sessions that carry an intent token id", file=fn["file"], line=m.get("line"))
        # state written
        wr = sites(fn["body"], lambda n: n.get("e") in ("struct", "call", "path") and def_of(n).startswith(ITS))
        kinds = sorted({def_of(s.node)[len(ITS):] for s in wr})
        ctx.check(kinds == [writes_state], rule, fn["fn"], f"{label}:writes-{writes_state}", f"writes {writes_state} only",
                  f"{label} constructs intent states {kinds}, expected only [{writes_state}]" +
                  (" — a cancelled session must hand the link back as Valid, never consume or re-lock it" if label == "cancel" else ""),
                  file=fn["file"], line=wr[0].line if wr else fn["line"])
        for i, s in enumerate(wr):
            neg = set()
            for p, leaf in s.leaves(False, ("arm",)):
                if ex_s(leaf[2][0]) == ex_s(m["scrut"]):
                    neg |= {alt_state(x) for x in top_alternatives(leaf[2][1])}
            ctx.check({"Consumed", "Valid", "None"} <= neg, rule, fn["fn"], f"{label}:write-behind-table" + (f"#{i}" if i else ""),
                      "state written only behind the table", f"{label} writes IntentTokenState::{def_of(s.node)[len(ITS):]} without having passed the "
                      f"stored-state table (guards: {s.render()})", file=fn["file"], line=s.line)
        # the database write is behind the if-let statement holding the table
        dbw = sites(fn["body"], lambda n: n.get("e") == "mcall" and n.get("name") in ("internal_modify", "internal_batch_modify", "modify_apply") and not n.get("exp"))
        ctx.floor(rule, f"database writes in {label}", len(dbw), 1)
        for i, s in enumerate(dbw):
            behind = False
            for conj in s.blocked:
                sts = set()
                for (p, leaf) in conj:
                    if p and leaf[1] == "arm" and ex_s(leaf[2][0]) == ex_s(m["scrut"]):
                        sts |= {alt_state(x) for x in top_alternatives(leaf[2][1])}
                if {"Consumed", "Valid", "None"} <= sts:
                    behind = True
            ctx.check(behind, rule, fn["fn"], f"{label}:db-write-behind-table" + (f"#{i}" if i else ""), "modify issued after the state table",
                      f"the database write of {label} is not dominated by the stored-state table (no `not(intent ∧ state ∈ {{Consumed, Valid, None}})` fact at the write)",
                      file=fn["file"], line=s.line)

    # ---- K1-consumed ------------------------------------------------------------------------------------------
    allowed = {
        "Consumed": {cm["fn"]: "commit (table above)", rv["fn"]: "administrative revoke of a link", DECODER: "decoder of the stored value"},
        "InProgress": {ex["fn"]: "exchange (table above)", DECODER: "decoder of the stored value"},
    }
    for v, ok_fns in allowed.items():
        total = 0
        for crate in (LIB, CORE):
            for n in F.fns_mentioning(crate, "IntentTokenState::" + v):
                if is_derived_fn(F, crate, n):
                    continue
                d = F.fn(crate, n)
                sts = [x for x in walk(d["body"]) if x.get("e") in ("struct", "call", "path") and def_of(x) == ITS + v]
                if not sts:
                    continue
                total += len(sts)
                ctx.check(n in ok_fns, "K1-consumed", n, f"constructs:{v}", ok_fns.get(n, ""),
                          f"IntentTokenState::{v} is constructed in {short(n)}, which is not one of its allowed writers {[short(x, 1) for x in ok_fns]} — "
                          + ("a reset link could be consumed (or a consumed state forged) outside commit/revoke" if v == "Consumed"
                             else "a reset link could be bound to a session outside the exchange path"), file=d["file"], line=sts[0].get("line"))
        ctx.floor("K1-consumed", f"constructions of IntentTokenState::{v}", total, 3 if v == "Consumed" else 2)
    # revoke never un-consumes: it only builds Consumed
    rk = sorted({def_of(x)[len(ITS):] for x in walk(rv["body"]) if x.get("e") in ("struct", "call", "path") and def_of(x).startswith(ITS)})
    ctx.check(rk == ["Consumed"], "K1-consumed", rv["fn"], "revoke-only-consumes", "revoke builds Consumed only",
              f"revoke_credential_update_intent builds {rk}; it must only ever move a link to Consumed", file=rv["file"], line=rv["line"])
