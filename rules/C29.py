"""C29 TOTP accepts exactly the current and previous code — structural clauses.

The property as a whole quantifies over HMAC outputs and was therefore not decidable statically.  What IS visible in the shape of the
code, and is decided here (each clause is a necessary condition of the property — changing it changes which codes are accepted):

 (1) K7-verify-window   Totp::verify is symbolically evaluated to a set of accepted counters: the result is true exactly when
                        `digest(c) == chal` for c in {counter, counter-1}, an error of digest counts as "not equal", and
                        counter = time.as_secs() / self.step (the same expression in do_totp_duration_from_epoch).
 (2) K7-truncation      Totp::digest is symbolically evaluated and matched against RFC 4226 5.3 dynamic truncation:
                        offset = last byte & 0xf, 4 bytes from offset, big-endian u32, & 0x7fff_ffff, % 10^digits; the HMAC is
                        computed over (self.algo, self.secret, counter).  K5-digits: every table relating a digit count to a
                        TotpDigits variant (TryFrom<u8>, Into<u8>, SCIM import) agrees with the variant's modulus 10^n.
 (3) K5-hmac-algo       TotpAlgo::digest: every variant's arm builds the HMAC of the same-numbered hash, keyed from the key argument,
                        feeds exactly `counter.to_be_bytes()` (8-byte big-endian) once and returns the untruncated MAC.
     K5-algo-tables     every match arm in kanidmd_lib converting between TotpAlgo and a stored / protocol / textual algorithm name
                        is the identity on the algorithm number.
 (4) K4-hmac-key-length HMAC is defined for keys of any length (RFC 2104 hashes keys longer than the block first); TotpAlgo::digest must
                        not reject a key because of its length.

NOT decided: that the HMAC / SHA primitives (crypto_glue / RustCrypto) compute the standard functions, hence equality of the produced
codes with an independent RFC 6238 implementation; behaviour for times before one step after the epoch (`counter - 1` at counter 0).
"""
import re

from .lib.hir import *
from .lib import pathcond as pc
from .lib import x_g10 as G
from .lib.x_g10 import Ev, Flow, Unknown, render, strip_casts, last_seg, hash_of_type, is_hmac_type, digits_of, int_lit, str_lit

META = dict(
    technique="symbolic evaluation of the extracted verify / truncation templates (finite set of accepted counters; RFC 4226 truncation matched term by term), "
              "variant-map agreement for the algorithm and digit tables, path conditions of the key-length rejection",
    level_text="Structural clauses of RFC 6238 acceptance decided on the type-checked HIR: verify accepts exactly the counters {T, T-1} with T = secs/step and maps errors to "
               "'not accepted'; the code is the RFC 4226 dynamic truncation (last-nibble offset, 4 bytes big-endian, 31-bit mask, modulo 10^digits); each TotpAlgo variant keys "
               "the HMAC of the same hash with the 8-byte big-endian counter; all algorithm / digit conversion tables are identities. Tests check a handful of vectors only.",
    level_note="Decides the algorithm skeleton and the tables only. The cryptographic primitives (HMAC-SHA1/256/512 from crypto_glue/RustCrypto) are trusted library code; equality of the "
               "resulting codes with an independent RFC 6238 implementation is NOT decided, nor is behaviour for counter 0 (`counter - 1`). The digit moduli are the "
               "compiler-evaluated discriminants of TotpDigits (item facts). Trusted: rustc name/type resolution, the evaluator in rules/lib/x_g10.py, the rule tables.",
)

LIB = "kanidmd_lib"
T = "kanidmd_lib::credential::totp::"
VERIFY = T + "Totp::verify"
DIGEST = T + "Totp::digest"
FROM_EPOCH = T + "Totp::do_totp_duration_from_epoch"
ALGO_DIGEST = T + "TotpAlgo::digest"
ALGO_ENUM = T + "TotpAlgo"
DIGITS_ENUM = T + "TotpDigits"
SELF = ("param", 0)


# ---- (1) verify -------------------------------------------------------------------------------------------------------------

def counter_offset(t, rec):
    """k when t == (time.as_secs() / self.step) + k, else None."""
    t = strip_casts(t)
    if t[0] == "bin" and t[1] == "/":
        l, r = strip_casts(t[2]), strip_casts(t[3])
        if l[0] == "call" and ends(l[1], "core::time::Duration::as_secs") and len(l[2]) == 1 and l[2][0][0] == "param":
            pty = rec["params"][l[2][0][1]]["ty"] if l[2][0][1] < len(rec["params"]) else ""
            if "Duration" in pty and r == ("field", "step", SELF):
                return 0
        return None
    if t[0] == "bin" and t[1] in ("-", "+"):
        sign = -1 if t[1] == "-" else 1
        l, r = strip_casts(t[2]), strip_casts(t[3])
        if r[0] == "int":
            b = counter_offset(l, rec)
            return None if b is None else b + sign * r[1]
        if l[0] == "int" and t[1] == "+":
            b = counter_offset(r, rec)
            return None if b is None else b + l[1]
    return None


class NotUnderstood(Exception):
    pass


def code_counter(t, rec, chal):
    """('code', k) when t is the payload of self.digest(counter+k)."""
    t = strip_casts(t)
    if t[0] == "res":
        t = strip_casts(t[1])
    if t[0] == "call" and t[1] == DIGEST and len(t[2]) == 2 and t[2][0] == SELF:
        k = counter_offset(t[2][1], rec)
        if k is None:
            raise NotUnderstood("digest is called with a counter that is not (time.as_secs() / self.step) ± const: " + render(t[2][1]))
        return k
    return None


def accepted(t, rec, chal):
    """Set of counter offsets k such that the boolean term is true iff digest(counter+k) == chal for some k in the set."""
    k = t[0]
    if k == "bool":
        return {"ALWAYS"} if t[1] else set()
    if k == "bin" and t[1] in ("||", "|"):
        return accepted(t[2], rec, chal) | accepted(t[3], rec, chal)
    if k == "alt":
        return accepted(t[1], rec, chal) | accepted(t[2], rec, chal)
    if k == "default":
        return set()
    if k == "ite":
        c, a, b = t[1], t[2], t[3]
        if a == ("bool", True):
            return accepted(c, rec, chal) | accepted(b, rec, chal)
        if a == ("bool", False) and c[0] == "not":
            return accepted(c[1], rec, chal) | accepted(b, rec, chal)
        raise NotUnderstood("conditional result " + render(t))
    if k == "bin" and t[1] == "==":
        l, r = strip_casts(t[2]), strip_casts(t[3])
        if l[0] == "res" and r[0] == "res":
            l, r = strip_casts(l[1]), strip_casts(r[1])
        for a, b in ((l, r), (r, l)):
            if b == chal:
                kk = code_counter(a, rec, chal)
                if kk is not None:
                    return {kk}
        raise NotUnderstood("equality that is not `digest(..) == chal`: " + render(t))
    raise NotUnderstood("boolean shape " + render(t))


def check_verify(ctx, F):
    rec = ctx.fn(LIB, VERIFY)
    chal_i = [i for i, p in enumerate(rec["params"]) if p["ty"] == "u32"]
    sig_ok = len(rec["params"]) == 3 and chal_i == [1] and rec.get("ret") == "bool"
    ctx.check(sig_ok, "K7-verify-window", VERIFY, "signature", "verify(&self, chal: u32, time: Duration) -> bool",
              f"Totp::verify's signature changed to {[p['ty'] for p in rec['params']]} -> {rec.get('ret')} (the rule identifies the presented code and the time by position/type)",
              file=rec["file"], line=rec["line"])
    chal = ("param", chal_i[0]) if chal_i else ("param", 1)
    ev = Ev(F, LIB, primitives={DIGEST}, inline_prefix=T)
    try:
        term = ev.eval_fn(rec)
        acc = accepted(term, rec, chal)
    except (Unknown, NotUnderstood) as ex:
        ctx.violation("K7-verify-window", VERIFY, "template-extracted",
                      f"Totp::verify could not be reduced to a disjunction of `self.digest(counter ± k) == chal` tests ({ex}); expected the shape "
                      "`digest(counter)==chal || digest(counter-1)==chal` with counter = time.as_secs() / self.step and errors mapped to false — fail closed",
                      file=rec["file"], line=rec["line"])
        return
    ctx.ok("K7-verify-window", VERIFY, "template-extracted", render(term)[:280])
    ctx.sample("verify := " + render(term)[:260])
    ctx.check(0 in acc, "K7-verify-window", VERIFY, "accepts:counter", "the code of the current step (secs/step) is accepted",
              f"verify no longer accepts the code of the current time step: accepted counters are counter+{sorted(map(str, acc))} — a correct current code is rejected",
              file=rec["file"], line=rec["line"])
    ctx.check(-1 in acc, "K7-verify-window", VERIFY, "accepts:counter-1", "the code of the immediately previous step is accepted",
              f"verify no longer accepts the code of the immediately previous time step: accepted counters are counter+{sorted(map(str, acc))} — the property requires the previous step to be accepted",
              file=rec["file"], line=rec["line"])
    extra = sorted(str(x) for x in acc if x not in (0, -1))
    ctx.check(not extra, "K7-verify-window", VERIFY, "no-other-counter", "no counter other than {counter, counter-1} is accepted",
              f"verify also accepts counter offset(s) {extra} (ALWAYS = unconditionally true): codes of other time steps (e.g. the next one, or a wider window) would be accepted, "
              "the property allows exactly the current and the previous step", file=rec["file"], line=rec["line"])



def check_from_epoch(ctx, F):
    rec2 = ctx.fn(LIB, FROM_EPOCH)
    ev2 = Ev(F, LIB, primitives={DIGEST}, inline_prefix=T)
    try:
        t2 = ev2.eval_fn(rec2)
        k = code_counter(t2, rec2, None)
    except (Unknown, NotUnderstood) as ex:
        k = None
        t2 = ("unknown", str(ex))
    ctx.check(k == 0, "K7-verify-window", FROM_EPOCH, "generates:counter", "do_totp_duration_from_epoch = digest(secs / step)",
              f"do_totp_duration_from_epoch is not `self.digest(time.as_secs() / self.step)` (found {render(t2)[:200]}): generated and verified codes would use different counters",
              file=rec2["file"], line=rec2["line"])


# ---- (2) truncation ---------------------------------------------------------------------------------------------------------------

def comm(t, op):
    """operands of a commutative binary term, or None"""
    t = strip_casts(t)
    if t[0] == "bin" and t[1] == op:
        return [t[2], t[3]]
    return None


def split_const(t, op):
    """(other, int) for `other op int` / `int op other`."""
    ops = comm(t, op)
    if not ops:
        return None, None
    a, b = strip_casts(ops[0]), strip_casts(ops[1])
    if b[0] == "int":
        return ops[0], b[1]
    if a[0] == "int":
        return ops[1], a[1]
    return None, None


def is_last_byte(t, H):
    t = strip_casts(t)
    if t == ("last", H):
        return True
    # hmac[hmac.len() - 1]
    if t[0] == "index" and t[1] == H:
        i = strip_casts(t[2])
        if i[0] == "bin" and i[1] == "-" and strip_casts(i[3]) == ("int", 1):
            l = strip_casts(i[2])
            return l[0] == "call" and last_seg(l[1]) == "len" and l[2] and l[2][0] == H
    return False


def check_truncation(ctx, F):
    R = "K7-truncation"
    rec = ctx.fn(LIB, DIGEST)
    ev = Ev(F, LIB, primitives={ALGO_DIGEST}, inline_prefix=T)
    try:
        term = ev.eval_fn(rec)
    except Unknown as ex:
        ctx.violation(R, DIGEST, "template-extracted", f"Totp::digest could not be evaluated symbolically ({ex}); expected the RFC 4226 dynamic truncation as straight-line code — fail closed",
                      file=rec["file"], line=rec["line"])
        return None
    ctx.ok(R, DIGEST, "template-extracted", render(term)[:300])
    ctx.sample("digest := " + render(term)[:260])
    loc = dict(file=rec["file"], line=rec["line"])
    shape_bad = "Totp::digest = " + render(term)[:220]
    t = term[1] if term[0] == "res" else term
    # % modulus
    mod_ops = strip_casts(t)
    ok_mod = mod_ops[0] == "bin" and mod_ops[1] == "%"
    if not ctx.check(ok_mod, R, DIGEST, "result-is-modulo", "code = <31-bit value> % <digit modulus>",
                     f"the returned code is not `value % modulus` ({shape_bad}); RFC 4226: HOTP = Snum mod 10^Digit", **loc):
        return None
    masked, modulus = mod_ops[2], mod_ops[3]
    # 31-bit mask
    val, mask = split_const(masked, "&")
    ctx.check(mask == 0x7fffffff, R, DIGEST, "mask-31-bits", "value & 0x7fff_ffff",
              f"the 4-byte value is masked with {hex(mask) if mask is not None else render(strip_casts(masked))[:120]} instead of 0x7fffffff: RFC 4226 5.3 drops only the top bit "
              "(a different mask yields different codes whenever the masked bits are set)", **loc)
    if val is None:
        val = masked
    # big endian u32
    v = strip_casts(val)
    be = v[0] == "call" and re.search(r"impl u32>::from_be_bytes$", v[1]) is not None and len(v[2]) == 1
    ctx.check(be, R, DIGEST, "big-endian-u32", "u32::from_be_bytes(4 bytes)",
              f"the 4 bytes are not combined with u32::from_be_bytes (found {render(v)[:160]}): RFC 4226 treats them as a big-endian number", **loc)
    if not be:
        return modulus
    sl = strip_casts(v[2][0])
    if sl[0] == "res":
        sl = strip_casts(sl[1])
    ok_idx = sl[0] == "index" and strip_casts(sl[2])[0] == "range"
    if not ctx.check(ok_idx, R, DIGEST, "window-is-slice-of-hmac", "bytes = hmac[offset .. offset + 4]",
                     f"the bytes fed to from_be_bytes are not a range slice of the HMAC output (found {render(sl)[:160]}) — shape not understood, fail closed", **loc):
        return modulus
    H = strip_casts(sl[1])
    rng = strip_casts(sl[2])
    lo, hi = rng[1], rng[2]
    want_H = ("call", ALGO_DIGEST, (("field", "algo", SELF), ("field", "secret", SELF), ("param", 1)))
    ctx.check(H == want_H, R, DIGEST, "hmac-input", "hmac = self.algo.digest(&self.secret, counter)",
              f"the truncated value is {render(H)[:200]}, expected self.algo.digest(&self.secret, counter): the code must be derived from the token's own algorithm, secret and the counter argument",
              **loc)
    hi_base, hi_add = split_const(hi, "+") if hi is not None else (None, None)
    ctx.check(hi is not None and lo is not None and hi_add == 4 and strip_casts(hi_base) == strip_casts(lo) if hi_base is not None else False, R, DIGEST, "window-is-4-bytes-from-offset",
              "hmac[offset .. offset + 4]",
              f"the slice taken is hmac[{render(lo)[:80] if lo else ''} .. {render(hi)[:100] if hi else ''}], expected exactly 4 bytes starting at offset", **loc)
    off = strip_casts(lo) if lo is not None else ("unknown",)
    byte, nib = split_const(off, "&")
    ok_off = nib == 0xf and byte is not None and is_last_byte(byte, H)
    ctx.check(ok_off, R, DIGEST, "offset-is-low-nibble-of-last-byte", "offset = hmac.last() & 0xf",
              f"offset = {render(off)[:160]}, expected (last byte of the HMAC) & 0xf (RFC 4226 5.3: low-order 4 bits of the last byte); any other mask/byte selects different code bytes "
              "and can index past a 20-byte SHA-1 MAC", **loc)
    return modulus


def enum_arm_rows(F, fn_names, enum_prefix):
    """Global K5 scan: [(fn, pattern-names, body-names, line)] for every match arm whose pattern or body value names a variant of enum_prefix.
    names are ('var', def) | ('str', s) | ('int', n)."""
    rows = []
    for name in fn_names:
        rec = F.fn(LIB, name)
        if rec is None:
            continue
        for m in walk(rec["body"]):
            if m.get("e") != "match" or m.get("src") != "Normal":
                continue
            for a in m["arms"]:
                pn = names_in_pat(a["pat"])
                bn = value_names(a["body"])
                if any(k == "var" and v.startswith(enum_prefix + "::") for k, v in pn | bn):
                    rows.append((name, pn, bn, a["body"].get("line") or rec["line"], rec))
    return rows


def names_in_pat(p):
    out = set()
    for n in walk(p):
        pk = n.get("p")
        if pk in ("struct", "tstruct"):
            d = n["path"].get("def", "")
            if d and not ends(d, "Option::Some", "Result::Ok"):
                out.add(("var", d))
        elif pk == "expr":
            if "path" in n:
                out.add(("var", n["path"].get("def", "")))
            elif n.get("lk") == "int":
                mm = re.match(r"\d+", str(n.get("v")))
                if mm:
                    out.add(("int", int(mm.group(0))))
            elif n.get("lk") in ("str",):
                out.add(("str", str(n.get("v"))))
    return out


def value_names(b):
    """names the arm body evaluates to: follows block tails and Ok(..)/Some(..) wrappers."""
    b = unwrap(b)
    for _ in range(6):
        if b.get("e") == "blockexpr" and "tail" in b["b"] and not [s for s in b["b"].get("stmts", []) if not (s.get("s") == "expr" and s["x"].get("exp"))]:
            b = unwrap(b["b"]["tail"])
        elif b.get("e") == "call" and b.get("ctor") and ends(b["ctor"], "Result::Ok", "Option::Some") and b.get("args"):
            b = unwrap(b["args"][0])
        else:
            break
    if b.get("e") == "path" and "def" in b.get("res", {}):
        return {("var", b["res"]["def"])}
    if b.get("e") == "lit" and b.get("lk") == "int":
        return {("int", int_lit(b))}
    if b.get("e") == "lit" and b.get("lk") == "str":
        return {("str", str(b.get("v")))}
    return set()


def check_digits(ctx, F, modulus):
    R = "K5-digits"
    it = F.item(LIB, "enum", DIGITS_ENUM)
    if not ctx.check(it is not None, R, DIGITS_ENUM, "enum-found", "enum TotpDigits found", "enum TotpDigits not found (anchor missing)"):
        return
    variants = [v["v"] for v in it["variants"]]
    loc = dict(file=it["file"], line=it["line"])
    # modulus per variant
    per_variant = None
    src = None
    m = strip_casts(modulus) if modulus is not None else ("unknown",)
    if m == ("field", "digits", SELF):
        # `self.digits as u32`: the discriminant
        is_cast = modulus[0] == "cast"
        disc = G.enum_discriminants(F, LIB, DIGITS_ENUM)
        src = "discriminants (item facts)"
        if is_cast and disc is not None:
            per_variant = disc
    elif m[0] == "switch" and strip_casts(m[1]) == ("field", "digits", SELF):
        per_variant = {}
        for v, b in m[2]:
            b = strip_casts(b)
            if v.startswith(DIGITS_ENUM + "::") and b[0] == "int":
                per_variant[last_seg(v)] = b[1]
        src = "match"
    if not ctx.check(per_variant is not None, R, DIGEST, "modulus-is-function-of-self.digits", f"modulus = f(self.digits) [{src}]",
                     f"the modulus {render(m)[:160]} is not `self.digits as u32` (with compiler-evaluated discriminants in the enum's item fact) nor a match over self.digits with literal arms — "
                     "cannot relate it to the digit count (fail closed)",
                     **loc):
        return
    # digit count per variant from every conversion table in the crate
    fns = [n for n in F.fns_mentioning(LIB, DIGITS_ENUM + "::") if not re.search(r"\{closure#\d+\}|__CALLSITE", n)]
    rows = enum_arm_rows(F, fns, DIGITS_ENUM)
    count_of = {}
    n_rows = 0
    for (fn, pn, bn, line, rec) in rows:
        pv = [last_seg(v) for k, v in pn if k == "var" and v.startswith(DIGITS_ENUM + "::")]
        bv = [last_seg(v) for k, v in bn if k == "var" and v.startswith(DIGITS_ENUM + "::")]
        pi = [v for k, v in pn if k == "int"]
        bi = [v for k, v in bn if k == "int"]
        for var, n in [(v, n) for v in bv for n in pi] + [(v, n) for v in pv for n in bi]:
            n_rows += 1
            count_of.setdefault(var, set()).add(n)
            want = per_variant.get(var)
            ctx.check(want == 10 ** n, R, fn, f"digits:{n}<->{var}",
                      f"{n} digits <-> TotpDigits::{var} (modulus {want})",
                      f"{fn} relates {n} digits with TotpDigits::{var}, whose modulus is {want}, not 10^{n} = {10 ** n}: a token declared with {n} digits would produce/accept codes of another length "
                      "than every RFC 6238 implementation", file=rec["file"], line=line)
    ctx.floor(R, "digit-count <-> TotpDigits table rows", n_rows, 6)
    for var in variants:
        val = per_variant.get(var)
        ok = val in (10 ** 6, 10 ** 8) and var in count_of and all(10 ** n == val for n in count_of[var])
        ctx.check(ok, R, DIGITS_ENUM, f"modulus:{var}", f"TotpDigits::{var} -> modulus {val} = 10^{sorted(count_of.get(var, []))}",
                  f"TotpDigits::{var} has modulus {val}; expected 10^6 / 10^8 matching the digit counts {sorted(count_of.get(var, []))} its conversion tables use "
                  "(RFC 4226: code = Snum mod 10^Digit)", **loc)
    ctx.sample(f"TotpDigits moduli {per_variant} (source: {src}); digit counts {dict((k, sorted(v)) for k, v in count_of.items())}")


# ---- (3) TotpAlgo::digest and the algorithm tables ----------------------------------------------------------------------------------

ALLOWED_RESULT_CHAIN = {"to_vec", "into_bytes", "finalize", "finalize_fixed", "as_slice", "into", "to_owned", "clone", "as_ref", "finalize_reset", "?", "map_err", "ok_or", "ok_or_else"}


def check_algo_digest(ctx, F):
    R = "K5-hmac-algo"
    rec = ctx.fn(LIB, ALGO_DIGEST)
    loc = dict(file=rec["file"], line=rec["line"])
    ptys = [p["ty"] for p in rec["params"]]
    sig = len(ptys) == 3 and "TotpAlgo" in ptys[0] and ptys[1] in ("&[u8]",) and ptys[2] == "u64"
    if not ctx.check(sig, R, ALGO_DIGEST, "signature", "digest(self, key_bytes: &[u8], counter: u64)",
                     f"TotpAlgo::digest's parameters are {ptys}; expected (TotpAlgo, &[u8], u64) — the 8-byte big-endian counter of RFC 4226 needs a u64", **loc):
        return
    fl = Flow(rec)
    m = None
    for n in walk(rec["body"]):
        if n.get("e") == "match" and n.get("src") == "Normal" and "TotpAlgo" in n.get("scrut_ty", "") and fl.trace(n["scrut"])[0] == ("param", 0):
            m = n
            break
    if not ctx.check(m is not None, R, ALGO_DIGEST, "table-found", "match self { variant => hmac .. }", "TotpAlgo::digest is no longer a match over self (shape not understood, fail closed)", **loc):
        return
    it = F.item(LIB, "enum", ALGO_ENUM)
    variants = [v["v"] for v in it["variants"]] if it else []
    ctx.floor(R, "TotpAlgo variants", len(variants), 3)
    arm_of = {}
    for a in m["arms"]:
        for k, v in names_in_pat(a["pat"]):
            if k == "var" and v.startswith(ALGO_ENUM + "::"):
                arm_of.setdefault(last_seg(v), []).append(a)
    # value of the function: `let hmac = match ..; Ok(hmac)` or the match directly
    for var in variants:
        arms = arm_of.get(var, [])
        if not ctx.check(len(arms) == 1, R, ALGO_DIGEST, f"arm:{var}", f"one arm for TotpAlgo::{var}",
                         f"TotpAlgo::{var} has {len(arms)} dedicated arms in TotpAlgo::digest (a wildcard/merged arm cannot select the hash per variant)", **loc):
            continue
        arm = arms[0]
        body = arm["body"]
        aloc = dict(file=rec["file"], line=body.get("line") or rec["line"])
        want = "sha" + (digits_of(var) or "?")
        # MAC objects constructed in the arm
        ctors = [c for c in walk(body) if c.get("e") in ("call", "mcall") and is_hmac_type(c.get("ty", "")) and not is_hmac_type(c.get("recv_ty", ""))
                 and last_seg(c.get("callee") or "") in ("new", "new_from_slice", "new_with_prefix", "default")]
        hashes = sorted({hash_of_type(c.get("ty", "")) or "?" for c in ctors})
        ctx.check(hashes == [want], R, ALGO_DIGEST, f"hmac-hash:{var}", f"TotpAlgo::{var} -> HMAC-{want}",
                  f"the arm for TotpAlgo::{var} constructs HMAC over {hashes or 'nothing recognised'}; expected HMAC-{want.upper()} (RFC 6238 1.2: the variant names the HMAC's hash) — "
                  "codes would differ from every other implementation of this algorithm", **aloc)
        # other hash objects in the arm (e.g. pre-hashing a long key) must use the same hash
        others = sorted({hash_of_type(c.get("ty", "")) for c in walk(body) if c.get("e") in ("call", "mcall") and hash_of_type(c.get("ty", "")) and not is_hmac_type(c.get("ty", ""))
                         and last_seg(c.get("callee") or "") in ("new", "digest", "new_with_prefix")} - {None})
        ctx.check(all(h == want for h in others), R, ALGO_DIGEST, f"no-foreign-hash:{var}", f"no other hash function in the arm ({others})",
                  f"the arm for TotpAlgo::{var} also uses {others}; RFC 2104 pre-hashes long keys with the HMAC's own hash ({want})", **aloc)
        if not ctors:
            continue
        # message: exactly counter.to_be_bytes()
        updates = [c for c in walk(body) if c.get("e") == "mcall" and is_hmac_type(c.get("recv_ty", "")) and last_seg(c.get("callee") or "") in ("update", "chain_update")]
        msg_ok = len(updates) == 1
        found = []
        for u in updates:
            root, chain = fl.trace(u["args"][0]) if u.get("args") else (("node", {}), [])
            found.append(("param" + str(root[1]) if root[0] == "param" else root[0]) + "." + ".".join(chain))
            if not (root == ("param", 2) and chain == ["to_be_bytes"]):
                msg_ok = False
            if any(x.get("e") == "index" for x in walk(u.get("args", []))):
                msg_ok = False
        ctx.check(msg_ok, R, ALGO_DIGEST, f"message:{var}", "the MAC is updated exactly once, with counter.to_be_bytes()",
                  f"the arm for TotpAlgo::{var} feeds the HMAC with {found or 'nothing'} ({len(updates)} update call(s)); RFC 4226 5.2: the message is exactly the 8-byte big-endian counter", **aloc)
        # key: flows from key_bytes
        key_ok = False
        how = "?"
        for c in ctors:
            args = c.get("args") or []
            if not args:
                continue
            root, chain = fl.trace(args[0])
            if root == ("param", 1) and not any(x.get("e") == "index" for x in walk(args[0])):
                key_ok, how = True, "constructed from key_bytes"
                continue
            loc_id = fl.local_of(args[0])
            if loc_id is None and root[0] == "node":
                loc_id = fl.local_of(root[1]) if isinstance(root[1], dict) else None
            # copy_from_slice(key_bytes) into a prefix of the (zero-initialised) key buffer
            for cp in walk(body):
                if cp.get("e") == "mcall" and last_seg(cp.get("callee") or "") in ("copy_from_slice", "clone_from_slice") and cp.get("args"):
                    src_root = fl.trace(cp["args"][0])[0]
                    src_roots = fl.roots(cp["args"][0])
                    dst_is_key = loc_id is not None and any(x.get("e") == "path" and x.get("res", {}).get("local") == loc_id for x in walk(fl_expand(fl, cp["recv"])))
                    src_is_key = src_root == ("param", 1) and not any(x.get("e") == "index" for x in walk(cp["args"][0]))
                    src_is_hashed_key = ("param", 1) in src_roots and any(r[0] == "call" and last_seg(r[1]) in ("finalize", "digest") for r in src_roots)
                    prefix = prefix_range_ok(fl, cp["recv"])
                    if dst_is_key and (src_is_key or src_is_hashed_key) and prefix:
                        key_ok, how = True, "key_bytes copied to the front of a block-sized zero buffer" if src_is_key else "hash(key_bytes) copied to the front of a block-sized zero buffer"
        ctx.check(key_ok, R, ALGO_DIGEST, f"key:{var}", f"the HMAC key is the key argument ({how})",
                  f"the arm for TotpAlgo::{var} does not key the HMAC with `key_bytes` (neither new_from_slice(key_bytes) nor a copy of key_bytes to the front of a zeroed block-sized key) — "
                  "codes would not be those of the token's secret", **aloc)
        # result: the untruncated MAC
        tail = arm_value(body)
        root, chain = fl.trace(tail) if tail is not None else (("node", {}), ["<none>"])
        res_ok = tail is not None and set(chain) <= ALLOWED_RESULT_CHAIN and any(c in ("finalize", "finalize_fixed", "finalize_reset") for c in chain) \
            and not any(x.get("e") == "index" for x in walk(tail))
        if res_ok:
            rn = root[1] if root[0] == "node" else None
            res_ok = isinstance(rn, dict) and is_hmac_type(rn.get("ty", ""))
        ctx.check(res_ok, R, ALGO_DIGEST, f"result:{var}", "the arm returns the whole finalized MAC",
                  f"the arm for TotpAlgo::{var} returns {'.'.join(chain)} of {root[0]}; expected hmac.finalize().into_bytes() of the MAC built in this arm, untruncated "
                  "(dynamic truncation indexes the LAST byte of the full MAC)", **aloc)
        ctx.sample(f"TotpAlgo::{var} -> HMAC-{hashes}, message {found}, key: {how}")


def fl_expand(fl, e, depth=6):
    """the expression with let-bound locals replaced by their initialisers (as a list of nodes to walk)"""
    out = [e]
    seen = set()
    frontier = [e]
    while frontier and depth > 0:
        depth -= 1
        nxt = []
        for x in frontier:
            for n in walk(x):
                if n.get("e") == "path" and "local" in n.get("res", {}):
                    s = fl.src.get(n["res"]["local"])
                    if s and s[0] == "let" and n["res"]["local"] not in seen:
                        seen.add(n["res"]["local"])
                        nxt.append(s[1])
        out.extend(nxt)
        frontier = nxt
    return out


def prefix_range_ok(fl, recv):
    """the destination of the key copy is `buf[..key_bytes.len()]` / `buf[0..key_bytes.len()]` (or the whole buffer)"""
    idx = [n for x in fl_expand(fl, recv) for n in walk(x) if n.get("e") == "index"]
    if not idx:
        return True
    for i in idx:
        r = unwrap(i["i"])
        if r.get("e") != "struct":
            return False
        d = r["path"].get("def", "")
        fs = {f["f"]: f["x"] for f in r.get("fields", [])}
        if ends(d, "ops::range::RangeTo") or (ends(d, "ops::range::Range") and int_lit(fs.get("start", {})) == 0):
            end = fs.get("end")
            root, chain = fl.trace(end)
            if not (root == ("param", 1) and chain == ["len"]):
                return False
        else:
            return False
    return True


def arm_value(body):
    b = unwrap(body)
    if b.get("e") == "blockexpr":
        t = b["b"].get("tail")
        return t
    return b


def check_algo_tables(ctx, F):
    R = "K5-algo-tables"
    fns = [n for n in F.fns_mentioning(LIB, ALGO_ENUM + "::") if not re.search(r"__CALLSITE|as core::fmt::(Debug|Display)>::fmt", n)]
    fns = sorted({G.strip_closure(n) for n in fns})
    rows = enum_arm_rows(F, fns, ALGO_ENUM)
    n_rows = 0
    tables = set()
    for (fn, pn, bn, line, rec) in rows:
        pv = [v for k, v in pn if k == "var" and v.startswith(ALGO_ENUM + "::")]
        bv = [v for k, v in bn if k == "var" and v.startswith(ALGO_ENUM + "::")]
        others_p = [(k, v) for k, v in pn if not (k == "var" and v.startswith(ALGO_ENUM + "::")) and k in ("var", "str")]
        others_b = [(k, v) for k, v in bn if not (k == "var" and v.startswith(ALGO_ENUM + "::")) and k in ("var", "str")]
        pairs = [(a, o) for a in bv for o in others_p] + [(a, o) for a in pv for o in others_b]
        for algo, (ok_, other) in pairs:
            oname = last_seg(other) if ok_ == "var" else other
            if not re.match(r"(?i)^(hmac)?s(ha)?-?_?\d+$", oname):
                continue
            n_rows += 1
            tables.add(fn)
            same = digits_of(last_seg(algo)) == digits_of(oname)
            ctx.check(same, R, fn, f"{oname}<->{last_seg(algo)}", f"{oname} <-> TotpAlgo::{last_seg(algo)}",
                      f"{fn} maps `{other}` to/from TotpAlgo::{last_seg(algo)}: the conversion is not the identity on the algorithm (SHA-{digits_of(oname)} vs SHA-{digits_of(last_seg(algo))}) — "
                      "a token would be verified with another hash than the one it was enrolled / stored / imported with", file=rec["file"], line=line)
    ctx.floor(R, "algorithm conversion rows", n_rows, 15)
    ctx.floor(R, "functions holding an algorithm conversion table", len(tables), 5)
    ctx.sample(f"algorithm tables in {sorted(last_seg(t) for t in tables)}: {n_rows} rows")


# ---- (4) key length -------------------------------------------------------------------------------------------------------------------

def check_key_length(ctx, F):
    R = "K4-hmac-key-length"
    rec = ctx.fn(LIB, ALGO_DIGEST)
    fl = Flow(rec)
    binds = pc.collect_binds(rec["body"])

    def len_of_key(e):
        """expression mentions key_bytes.len() (a `len` call whose receiver is the key parameter)"""
        for n in walk(e):
            if n.get("e") == "mcall" and last_seg(n.get("callee") or "") == "len":
                root, chain = fl.trace(n["recv"])
                if root == ("param", 1) and set(chain) <= {"as_ref", "as_slice", "deref", "borrow"}:
                    return True
        return False

    def is_err_site(n):
        return n.get("e") == "call" and n.get("ctor") and ends(n["ctor"], "Result::Err") and not n.get("exp")

    hits = []
    for site, conds in pc.site_conditions(rec["body"], is_err_site):
        lits = pc.implied(conds, binds)
        for (pol, leaf) in lits.values():
            if leaf[1] == "expr":
                e = unwrap(leaf[2])
                if e.get("e") == "bin" and e.get("op") in (">", ">=", "<", "<=", "==", "!=") and len_of_key(e):
                    hits.append((site.get("line"), ("" if pol else "not ") + ex_s(e)))
    # `?` on a length-dependent fallible slice operation
    for n in walk(rec["body"]):
        if n.get("e") == "match" and G.TRY in n.get("src", ""):
            inner = G.try_inner(n)
            for c in walk(inner, into_closures=False):
                if c.get("e") == "mcall" and last_seg(c.get("callee") or "") in ("get", "get_mut", "checked_sub", "split_at_checked", "split_at_mut_checked", "first_chunk", "first_chunk_mut") \
                        and (len_of_key(c) or (last_seg(c.get("callee") or "") == "checked_sub" and len_of_key(c.get("args", [])))):
                    hits.append((c.get("line"), "`?` on " + ex_s(c)))
    lines = sorted({h[0] for h in hits if h[0]})
    ctx.check(not hits, R, ALGO_DIGEST, "rejects-keys-longer-than-block",
              "no key is rejected because of its length",
              "TotpAlgo::digest returns Err depending on the key's length (" + "; ".join(sorted({h[1] for h in hits}))[:300] + f"; lines {lines}): HMAC (RFC 2104) is defined for keys of any length — "
              "keys longer than the hash block (64 bytes for SHA-1/SHA-256, 128 for SHA-512) are hashed first — so a token whose secret is longer than the block can never produce an accepted code, "
              "while every RFC 6238 implementation computes one; the property's quantifier includes such keys (0-200 bytes)",
              file=rec["file"], line=lines[0] if lines else rec["line"])


def run(ctx):
    F = ctx.facts
    ctx.explanation = ("Structural clauses of RFC 6238 acceptance: verify accepts exactly counters {T, T-1}, T = secs/step, errors count as mismatch (symbolic evaluation); Totp::digest is the RFC 4226 "
                       "dynamic truncation modulo 10^digits; every TotpAlgo variant uses the HMAC of the same hash over the 8-byte big-endian counter; algorithm/digit tables are identities; "
                       "no key is rejected for its length. The HMAC/SHA primitives are trusted; equality with an independent implementation is not decided.")
    check_verify(ctx, F)
    check_from_epoch(ctx, F)
    modulus = check_truncation(ctx, F)
    check_digits(ctx, F, modulus)
    check_algo_digest(ctx, F)
    check_algo_tables(ctx, F)
    check_key_length(ctx, F)
