"""C12 Stored and replicated values read back unchanged — clause: writer/reader variant-map agreement (K5).

Decided (DESIGN.md C12):
 (a) Password::to_dbpasswordv1 ; TryFrom<DbPasswordV1> for Password  is the identity on Kdf variants;
 (b) every `impl ValueSetT`: the DbValueSetV2 variant its to_db_valueset_v2 constructs is decoded in
     from_db_valueset_v2 by the *same* impl type (its `from_dbvs2` or its constructor);
 (c) replication entry messages build and rehydrate attribute state only through
     to_db_valueset_v2 / from_db_valueset_v2, so (b) covers the wire;
 (d) the DbEntryVers / DbBackup variant written is also read.
 K6-derived-filter-accumulates  ValueSetOauth2Session.rs_filter (and every local that becomes it) is only written with `|=`; plain assignment only resets to u128::MIN.
Not decided: field-level equality, serde behaviour.
"""
import re
from .lib.hir import *

META = dict(
    technique="static variant-map agreement (writer/reader tables extracted from type-checked HIR)",
    level_text="Exhaustive structural check over every password KDF variant and every ValueSetT implementation: the stored variant each writer "
               "constructs is decoded by the matching reader. A necessary clause of round-trip fidelity (a mismatch provably loses or corrupts a stored value); "
               "tests only sample a few value types.",
    level_note="Decides the variant-level clause only; field-level equality and serde behaviour are not decided. Trusted: rustc's resolution of paths/variants, the rule tables.",
)

LIB = "kanidmd_lib"
CRY = "kanidm_lib_crypto"


def variant_ctor_defs(node, enum_path):
    """def-paths of variants of `enum_path` constructed under node."""
    out = []
    for n in walk(node):
        if n.get("e") in ("struct", "call", "path"):
            d = def_of(n)
            if d.startswith(enum_path + "::"):
                out.append((d, n))
    return out


def arm_table(match_node, enum_path):
    """[(variant-def list of the arm's pattern, arm body)]"""
    rows = []
    for a in match_node["arms"]:
        vs = sorted({t[4:] for t in tokens(a["pat"]) if t.startswith("def:" + enum_path + "::")})
        rows.append((vs, a))
    return rows


def find_match_on(body, ty_suffix):
    for n in walk(body):
        if n.get("e") == "match" and n.get("src") == "Normal" and n.get("scrut_ty", "").replace("&", "").strip().endswith(ty_suffix):
            return n
    return None


def run(ctx):
    _run_main(ctx)
    derived_lookup_state_accumulates(ctx)


def _run_main(ctx):
    F = ctx.facts
    ctx.explanation = ("Writer/reader variant-map agreement (K5): password storage map is the identity on the Kdf variants; "
                       "every ValueSetT impl's DbValueSetV2 variant is decoded by the same impl; replication reuses the storage "
                       "encoding; written DbEntry/DbBackup versions are read. Decides the structural clause, not field-level equality.")
    # ---- (a) password -------------------------------------------------------
    w = ctx.fn(CRY, "kanidm_lib_crypto::Password::to_dbpasswordv1")
    r = ctx.fn(CRY, "kanidm_lib_crypto::<Password as core::convert::TryFrom<DbPasswordV1>>::try_from")
    wm = find_match_on(w["body"], "Kdf")
    rm = find_match_on(r["body"], "DbPasswordV1")
    if not ctx.check(wm is not None and rm is not None, "K5-password", "Password", "tables-found",
                     "both conversion tables extracted", "conversion tables are not a `match` over Kdf / DbPasswordV1 (shape not understood)"):
        return
    wmap = {}
    for vs, a in arm_table(wm, "kanidm_lib_crypto::Kdf"):
        outs = sorted({d for d, _ in variant_ctor_defs(a["body"], "kanidm_lib_crypto::DbPasswordV1")})
        for v in vs:
            wmap[v] = outs
    rmap = {}
    for vs, a in arm_table(rm, "kanidm_lib_crypto::DbPasswordV1"):
        outs = sorted({d for d, _ in variant_ctor_defs(a["body"], "kanidm_lib_crypto::Kdf")})
        for v in vs:
            rmap[v] = (outs, a["body"].get("line"))
    kdf = F.item(CRY, "enum", "kanidm_lib_crypto::Kdf")
    kdf_variants = [v["v"] for v in kdf["variants"]] if kdf else []
    ctx.floor("K5-password", "Kdf variants", len(kdf_variants), 15)
    for v in kdf_variants:
        kv = "kanidm_lib_crypto::Kdf::" + v
        outs = wmap.get(kv)
        if not ctx.check(outs is not None and len(outs) == 1, "K5-password", w["fn"], f"writer:{v}",
                         f"Kdf::{v} -> {outs}", f"Kdf::{v} is not written to exactly one DbPasswordV1 variant: {outs}",
                         file=w["file"], line=w["line"]):
            continue
        back = rmap.get(outs[0])
        ok = back is not None and back[0] == [kv]
        ctx.check(ok, "K5-password", r["fn"], f"roundtrip:{v}",
                  f"Kdf::{v} -> {short(outs[0],1)} -> Kdf::{v}",
                  f"Kdf::{v} is stored as {short(outs[0])} but that is read back as {[short(x) for x in (back[0] if back else [])]} — a stored password of this type changes hash algorithm on reload",
                  file=r["file"], line=back[1] if back else r["line"])
        ctx.sample(f"password: Kdf::{v} -> {short(outs[0])} -> {[short(x) for x in (back[0] if back else [])]}")

    # ---- (a') field routing: the stored fields come back in the fields they were taken from -------------------
    # (added after seeded change C12: `Kdf::SSHA512(hash, salt) => DbPasswordV1::SSHA512(salt.clone(), hash.clone())` — the pattern
    # binds the tuple fields under swapped names, so hash and salt change places in the stored record)
    def slots(pat):
        """{local id: slot} for the fields a variant pattern binds; slot = position (tuple variant) or field name"""
        out = {}
        p = pat
        while p.get("p") == "ref":
            p = p["pat"]
        if p.get("p") == "tstruct":
            for i, sp in enumerate(p["pats"]):
                while sp.get("p") == "ref":
                    sp = sp["pat"]
                if sp.get("p") == "bind":
                    out[sp["local"]] = i
        elif p.get("p") == "struct":
            for fl in p["fields"]:
                sp = fl["pat"]
                while sp.get("p") == "ref":
                    sp = sp["pat"]
                if sp.get("p") == "bind":
                    out[sp["local"]] = fl["f"]
        return out

    def root_local(e):
        e = unwrap(e)
        while isinstance(e, dict):
            if e.get("e") == "mcall":
                e = unwrap(e["recv"])
            elif e.get("e") == "call" and len(e.get("args", [])) == 1 and not e.get("ctor"):
                e = unwrap(e["args"][0])
            elif e.get("e") == "path" and "local" in e["res"]:
                return e["res"]["local"]
            else:
                return None
        return None

    def routing(match_node, src_enum, dst_enum):
        """{src variant: {src slot: dst slot}} for arms that construct exactly one dst variant"""
        res = {}
        for a in match_node["arms"]:
            pats = a["pat"]["pats"] if a["pat"].get("p") == "or" else [a["pat"]]
            for p in pats:
                d = def_of(p) or (p.get("path", {}) or {}).get("def", "")
                pp = p
                while pp.get("p") == "ref":
                    pp = pp["pat"]
                d = (pp.get("path") or {}).get("def", "")
                if not d.startswith(src_enum + "::"):
                    continue
                sl = slots(pp)
                ctor = [n for n in walk(a["body"]) if n.get("e") in ("call", "struct") and def_of(n).startswith(dst_enum + "::")]
                if len(ctor) != 1:
                    continue
                c = ctor[0]
                m = {}
                if c.get("e") == "call":
                    for j, arg in enumerate(c["args"]):
                        rl = root_local(arg)
                        if rl in sl:
                            m[sl[rl]] = j
                else:
                    for fl in c["fields"]:
                        rl = root_local(fl["x"])
                        if rl in sl:
                            m[sl[rl]] = fl["f"]
                res[d] = (def_of(c), m)
        return res

    wr = routing(wm, "kanidm_lib_crypto::Kdf", "kanidm_lib_crypto::DbPasswordV1")
    rr = routing(rm, "kanidm_lib_crypto::DbPasswordV1", "kanidm_lib_crypto::Kdf")
    n_routes = 0
    for kv, (dbv, m1) in sorted(wr.items()):
        back = rr.get(dbv)
        if back is None or back[0] != kv:
            continue
        m2 = back[1]
        for src_slot, db_slot in sorted(m1.items(), key=str):
            n_routes += 1
            dst = m2.get(db_slot)
            ctx.check(dst == src_slot, "K5-password-fields", r["fn"], f"field:{short(kv,1)}.{src_slot}",
                      f"Kdf::{short(kv,1)}.{src_slot} -> {short(dbv,1)}.{db_slot} -> .{dst}",
                      f"Kdf::{short(kv,1)} field {src_slot} is stored in {short(dbv,1)} field {db_slot}, which is read back into field {dst}: after one store/load "
                      "cycle (database, backup, replication) the hash material sits in the wrong field (e.g. salt and hash swapped) and the password no longer verifies",
                      file=w["file"], line=w["line"])
    ctx.floor("K5-password-fields", "password field routes traced", n_routes, 25)

    # ---- (b) value sets -----------------------------------------------------
    rd = ctx.fn(LIB, "kanidmd_lib::valueset::from_db_valueset_v2")
    m = find_match_on(rd["body"], "DbValueSetV2")
    if not ctx.check(m is not None, "K5-valueset", rd["fn"], "table-found", "reader table extracted",
                     "from_db_valueset_v2 is not a match over DbValueSetV2"):
        return
    ENUM = "kanidmd_lib::be::dbvalue::DbValueSetV2"
    reader = {}   # variant -> (set of impl self types that decode it, line, errs)
    for vs, a in arm_table(m, ENUM):
        tys = set()
        for c in all_calls(a["body"]):
            cal = callee_of(c)
            mm = re.match(r"kanidmd_lib::valueset::(?:\w+::)*(ValueSet\w+)::(\w+)$", cal)
            if mm:
                tys.add(mm.group(1))
        is_err = bool(constructs(a["body"], "core::result::Result::Err")) and not tys
        for v in vs:
            reader[v] = (tys, a["body"].get("line"), is_err)
    writers = F.find_fns(LIB, r"<valueset::.*as valueset::ValueSetT>::to_db_valueset_v2$")
    ctx.floor("K5-valueset", "ValueSetT::to_db_valueset_v2 impls", len(writers), 49)
    ctx.floor("K5-valueset", "from_db_valueset_v2 arms (variants)", len(reader), 52)
    n_ok = 0
    for wn in sorted(writers):
        wf = ctx.fn(LIB, wn)
        ty = re.search(r"(ValueSet\w+) as valueset::ValueSetT", wn).group(1)
        outs = sorted({d for d, _ in variant_ctor_defs(wf["body"], ENUM)})
        if not ctx.check(len(outs) >= 1, "K5-valueset", wn, f"writer:{ty}", f"{ty} -> {[short(o,1) for o in outs]}",
                         f"{ty}::to_db_valueset_v2 constructs no DbValueSetV2 variant (shape not understood)",
                         file=wf["file"], line=wf["line"]):
            continue
        for o in outs:
            rdr = reader.get(o)
            if rdr is None:
                ctx.violation("K5-valueset", wn, f"unread:{short(o,1)}",
                              f"{ty} writes {short(o)} but from_db_valueset_v2 has no arm for it", file=wf["file"], line=wf["line"])
                continue
            tys, line, is_err = rdr
            ok = ty in tys
            ctx.check(ok, "K5-valueset", rd["fn"], f"decode:{short(o,1)}",
                      f"{ty} writes {short(o,1)}; decoded by {sorted(tys)}",
                      f"{ty} writes {short(o)} but from_db_valueset_v2 decodes that variant with {sorted(tys) or ('Err' if is_err else 'nothing recognised')} — a stored value of this type does not read back",
                      file=rd["file"], line=line)
            if ok:
                n_ok += 1
            ctx.sample(f"valueset: {ty} -> DbValueSetV2::{short(o,1)} -> {sorted(tys)}")

    # ---- (c) replication reuses the storage encoding ---------------------------
    repl_fns = F.find_fns(LIB, r"^kanidmd_lib::repl::proto::Repl(Incremental)?EntryV1::(new|rehydrate)$")
    ctx.floor("K1-repl", "ReplEntryV1/ReplIncrementalEntryV1 new+rehydrate", len(repl_fns), 4)
    for n in sorted(repl_fns):
        f = ctx.fn(LIB, n)
        if n.endswith("::new"):
            ok = bool(calls_in(f["body"], "ValueSetT::to_db_valueset_v2", "to_db_valueset_v2"))
            ctx.check(ok, "K1-repl", n, "encodes-via-to_db_valueset_v2", "attribute state encoded with to_db_valueset_v2",
                      "replication message no longer encodes attribute values through to_db_valueset_v2 (storage/wire encodings diverge; (b) no longer covers the wire)",
                      file=f["file"], line=f["line"])
        else:
            ok = bool(calls_in(f["body"], "valueset::from_db_valueset_v2"))
            ctx.check(ok, "K1-repl", n, "decodes-via-from_db_valueset_v2", "attribute state decoded with from_db_valueset_v2",
                      "replication message no longer decodes attribute values through from_db_valueset_v2",
                      file=f["file"], line=f["line"])

    # ---- (d) entry / backup versions ----------------------------------------
    to_db = ctx.fn1(LIB, r"^kanidmd_lib::entry::Entry::<entry::EntrySealed, entry::EntryCommitted>::to_dbentry$")
    from_db = ctx.fn1(LIB, r"^kanidmd_lib::entry::Entry::<entry::EntrySealed, entry::EntryCommitted>::from_dbentry$")
    wv = sorted({d for d, _ in variant_ctor_defs(to_db["body"], "kanidmd_lib::be::dbentry::DbEntryVers")})
    rv = sorted({t[4:] for t in tokens(from_db["body"]) if t.startswith("def:kanidmd_lib::be::dbentry::DbEntryVers::")})
    ctx.check(len(wv) == 1 and wv[0] in rv, "K5-dbentry", to_db["fn"], "entry-version-read",
              f"written {[short(x) for x in wv]} ⊆ read {[short(x) for x in rv]}",
              f"to_dbentry writes {[short(x) for x in wv]} but from_dbentry reads {[short(x) for x in rv]}",
              file=to_db["file"], line=to_db["line"])


# ---------------------------------------------------------------------------------------------------------------------
# "identical behaviour" after a reload includes the state a value set derives from its members while it is decoded. The
# OAuth2 session set keeps `rs_filter`, the OR of every member's resource-server uuid, and answers remove()/contains() by
# resource server from it; it takes no part in equality or serialisation, so a decoder that overwrites instead of
# accumulating yields a value that compares equal and behaves differently. Every write to the field, and to a local that
# becomes the field, is `|=`; a plain assignment is the reset to u128::MIN (clear) only.

def derived_lookup_state_accumulates(ctx):
    F = ctx.facts
    TY = "kanidmd_lib::valueset::session::ValueSetOauth2Session"
    names = sorted(F.find_fns(LIB, r"valueset::session::ValueSetOauth2Session"))
    n_acc = 0
    n_lit = 0
    for n in names:
        fn = F.fn(LIB, n)
        if fn is None or fn.get("test"):
            continue
        body = fn["body"]
        locs = set()
        for x in walk(body):
            if x.get("e") == "struct" and def_of(x) == TY:
                for f in x["fields"]:
                    if f["f"] == "rs_filter":
                        n_lit += 1
                        v = unwrap(f["x"])
                        if v.get("e") == "path" and "local" in v.get("res", {}):
                            locs.add(v["res"]["local"])
        for x in walk(body):
            if x.get("e") not in ("assign", "assignop"):
                continue
            l = unwrap(x["l"])
            is_field = l.get("e") == "field" and l.get("f") == "rs_filter" and l.get("xty", "").endswith("ValueSetOauth2Session")
            is_loc = l.get("e") == "path" and l.get("res", {}).get("local") in locs
            if not (is_field or is_loc):
                continue
            if x["e"] == "assignop":
                ok = x.get("op") == "|="
            else:
                r = unwrap(x["r"])
                ok = r.get("e") == "path" and r.get("res", {}).get("def", "").endswith("<impl u128>::MIN") or (r.get("e") == "lit" and str(r.get("v")) == "0")
                if not ok and r.get("e") == "bin" and r.get("op") in ("|", "BitOr"):
                    # `x = x | m` is the same accumulation spelled out
                    same = [o for o in (unwrap(r.get("l")), unwrap(r.get("r"))) if isinstance(o, dict) and ex_s(o) == ex_s(l)]
                    if same:
                        ok = True
                        n_acc += 1
            if ok and x["e"] == "assignop":
                n_acc += 1
            ctx.check(ok, "K6-derived-filter-accumulates", fn["fn"], f"rs_filter-write:{x['e']}{x.get('op') or ''}",
                      "rs_filter |= member resource server (or reset to MIN)",
                      "the resource-server lookup filter of an OAuth2 session set is overwritten instead of accumulated: after decoding (database, backup, "
                      "replication) the value compares equal but remove()/contains() by resource server miss every member except the last",
                      file=fn["file"], line=x.get("line"))
    ctx.floor("K6-derived-filter-accumulates", "rs_filter accumulation sites", n_acc, 8)
    ctx.floor("K6-derived-filter-accumulates", "ValueSetOauth2Session literals with rs_filter", n_lit, 4)
