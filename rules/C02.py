"""C02 Filter rewriting preserves meaning (K4/K5/K7).

Argument (DESIGN.md C02). Under the reference semantics (`entry_match_no_index_inner`: Or=any, And=all, AndNot=!, Inclusion=false)
every rewrite step of `FilterResolved::optimise` / `fast_optimise` is a Boolean identity:
  flattening X-in-X for X in {And, Or, Inclusion} (associativity), sorting (commutativity — `Ord` can only affect *where* terms end
  up, never which terms there are; `sort*` additionally requires `cmp` to be a total preorder or it may panic / misplace),
  removing adjacent `==` terms (idempotence, provided `==` implies same meaning), unwrapping a one-element And/Or.
Resolution (`resolve_idx` / `resolve_no_idx`) must map every `FilterComp` variant to the same-named `FilterResolved` variant with the
same attribute and value, children resolved recursively in place, and `SelfUuid` to `Eq(Attribute::Uuid, PartialValue::Uuid(ev.get_uuid()))`.

Decided here:
  K4-reference   the reference arms are the boolean ones (shared with C01);
  K4-optimise    per arm of optimise/fast_optimise: partition predicate, re-absorbing `if let` and rebuilt constructor name the *same*
                 variant as the arm; singleton unwrap only for And/Or; only the allow-listed order/duplicate operations touch the term list;
                 every other variant is returned unchanged;
  K7-eq          `PartialEq::eq` evaluated on a finite model of all variants: eq(x,y) implies same variant, same attribute, same value /
                 same children (the index slope may be ignored);
  K5-resolve     identity variant map of both resolvers, attribute/value passed through, siblings agree, SelfUuid arm;
  K7-ord         `Ord::cmp` (with `get_slopeyness_factor`) evaluated on a finite model (3 values per component — enough for every
                 3-element axiom since cmp only compares like components): reflexive, antisymmetric, transitive => total preorder.
Not decided: Attribute/PartialValue `Ord`/`Eq` themselves, the validate step (C41), the resolve cache.
"""
from .lib.hir import *
from .lib.x_tables import (V, T, LIT, Undecided, first_arm, pat_match, enum_variants, last, local_of, recv_root, chain_calls,
                           closure_of, param_local, pat_variants, is_catch_all, refs_to)
from .C01 import reference_table

META = dict(
    technique="decision-table / variant-map extraction from type-checked HIR + exhaustive finite-model evaluation of the extracted eq/cmp code (no kanidm code runs)",
    level_text="Every rewrite step of optimise/fast_optimise is shown to be a Boolean identity of the reference semantics (flatten same-variant, "
               "sort, dedup by an equality that implies same meaning, unwrap singleton And/Or); both resolvers are identity variant maps that pass "
               "attribute and value through and resolve SelfUuid to Eq(uuid, caller); the ordering used by sort is a total preorder on a complete finite model. "
               "By structural induction this covers every filter of any depth and width, which test_filter_optimise only samples.",
    level_note="Decides: rewrite steps are identities, PartialEq implies same attribute+value/children, resolve variant maps, Ord totality on the finite model. "
               "Not decided: Ord/Eq of Attribute and PartialValue themselves, schema validation of filters (C41), the resolve cache. "
               "Trusted: rustc facts, slice sort/dedup and Vec append/remove semantics of the standard library.",
)

LIB = "kanidmd_lib"
FR = "kanidmd_lib::filter::FilterResolved"
FC = "kanidmd_lib::filter::FilterComp"
FLAT = ("And", "Or", "Inclusion")          # variants whose nested same-variant children may be flattened
UNWRAP = ("And", "Or")                      # variants whose one-element list may be replaced by the element
# operations allowed on the term list of a rewritten compound (anything else could add, drop or alter terms)
LIST_OK = ("append", "sort_unstable", "sort_unstable_by", "sort", "sort_by", "dedup", "len", "is_empty", "first", "last", "iter", "remove")
SLOPE_TY = "core::option::Option<core::num::nonzero::NonZero<u8>>"


class Shape(Exception):
    pass


def leaves(e):
    """Value leaves of an expression (through blocks, if/else, match arms)."""
    e = unwrap(e)
    k = e.get("e")
    if k == "blockexpr":
        b = e["b"]
        return leaves(b["tail"]) if b.get("tail") is not None else []
    if k == "if":
        out = [("then", e["cond"], x) for x in leaves(e["then"])]
        if e.get("else") is not None:
            out += [("else", e["cond"], x) for x in leaves(e["else"])]
        return [x if not isinstance(x, tuple) or len(x) != 3 or x[0] not in ("then", "else") else x for x in out]
    return [e]


def flat_leaves(e):
    """[(conds, leaf)] where conds = [(polarity, cond-expr)] of the enclosing ifs."""
    e = unwrap(e)
    k = e.get("e")
    if k == "blockexpr":
        b = e["b"]
        return flat_leaves(b["tail"]) if b.get("tail") is not None else []
    if k == "if":
        out = [([(True, e["cond"])] + c, x) for (c, x) in flat_leaves(e["then"])]
        if e.get("else") is not None:
            out += [([(False, e["cond"])] + c, x) for (c, x) in flat_leaves(e["else"])]
        return out
    return [([], e)]


def only_variant_pred(closure, variant):
    """closure is |f| matches!(f, FilterResolved::<variant>(..))"""
    if closure is None or len(closure["params"]) != 1 or closure["params"][0].get("p") != "bind":
        return False
    b = unwrap(closure["body"])
    if b.get("e") != "match" or local_of(b["scrut"]) != closure["params"][0]["local"]:
        return False
    for v in ("And", "Or", "Inclusion", "AndNot", "Eq", "Cnt", "Stw", "Enw", "Pres", "LessThan", "Invalid", "__other__"):
        try:
            _, arm, _ = first_arm(b, V(v, None))
        except Undecided:
            return False
        if arm is None:
            return False
        r = unwrap(arm["body"])
        if not (r.get("e") == "lit" and r.get("lk") == "bool"):
            return False
        if (r["v"] == "true") != (v == variant):
            return False
    return True


# ---------------------------------------------------------------------------
# K4-optimise

def check_optimise(ctx, fname, deep):
    F = ctx.facts
    rule = "K4-optimise"
    f = ctx.fn(LIB, FR + "::" + fname)
    selfl = param_local(f, 0)
    m = unwrap(f["body"])
    if not ctx.check(m.get("e") == "match" and m.get("src") == "Normal" and local_of(m["scrut"]) == selfl, rule, f["fn"], f"{fname}:table-found",
                     f"{fname} = match self {{..}}", f"{fname} is not a single `match self` (shape not understood; fail closed)", file=f["file"], line=f["line"]):
        return
    variants = enum_variants(F, LIB, FR) or []
    n_compound = 0
    for vn, ftys in variants:
        key = f"{fname}:{vn}"
        try:
            _, arm, binds = first_arm(m, V(vn, [("fld", i) for i in range(len(ftys))]))
        except Undecided as ex:
            ctx.violation(rule, f["fn"], key, f"arm for {vn} not decidable: {ex}", file=f["file"], line=f["line"])
            continue
        if arm is None:
            ctx.violation(rule, f["fn"], key, f"no arm for {vn}", file=f["file"], line=f["line"])
            continue
        line = arm["body"].get("line")
        body = unwrap(arm["body"])
        # identity arm: `v => v` or `f => f.clone()`
        whole = [l for l, sv in binds.items() if isinstance(sv, V)]
        is_ident = False
        if whole:
            if local_of(body) == whole[0]:
                is_ident = True
            elif body.get("e") == "mcall" and is_call_to(body, "Clone::clone", "clone") and local_of(body["recv"]) == whole[0] and not body["args"]:
                is_ident = True
        if is_ident:
            ctx.ok(rule, f["fn"], key, f"{vn}: returned unchanged")
            continue
        if vn not in FLAT:
            ctx.violation(rule, f["fn"], key,
                          f"{fname}: FilterResolved::{vn} is rewritten by its own arm, but only And/Or/Inclusion have rewrite identities in the rule "
                          f"(e.g. unwrapping AndNot(f) to f, or changing a leaf, changes which entries match)", file=f["file"], line=line)
            continue
        n_compound += 1
        problems = compound_arm(arm, binds, vn, fname, deep)
        ctx.check(not problems, rule, f["fn"], key,
                  (f"{vn}: flatten {vn}-in-{vn}" + (", unwrap singleton" if vn in UNWRAP else "") if deep else f"{vn}: outer terms only") + ", sort, dedup, rebuild " + vn,
                  f"{fname} arm for FilterResolved::{vn}: " + "; ".join(problems) + " — the rewritten filter no longer matches the same entries as the original",
                  file=f["file"], line=line)
        ctx.sample(f"{rule} {key} :: " + ("ok" if not problems else "; ".join(problems)))
    ctx.floor(rule, f"{fname} compound arms", n_compound, 3 if deep else 2)


def compound_arm(arm, binds, vn, fname, deep):
    problems = []
    src_list = next((l for l, sv in binds.items() if sv == ("fld", 0)), None)
    if src_list is None:
        return ["the term list of the arm is not bound"]
    body = arm["body"]
    new_list = src_list
    absorbed = None
    if deep:
        # let (same, rest) = list.iter().map(|f| f.optimise()).partition(|f| matches!(f, X(..)))
        part = None
        for n in walk(body, into_closures=False):
            if n.get("s") == "let" and n.get("init") is not None:
                init = unwrap(n["init"])
                if init.get("e") == "mcall" and is_call_to(init, "Iterator::partition"):
                    part = (n, init)
                    break
        if part is None:
            return ["no `partition` of the optimised children found (shape not understood)"]
        letn, init = part
        if not (letn["pat"].get("p") == "tuple" and len(letn["pat"]["pats"]) == 2 and all(p.get("p") == "bind" for p in letn["pat"]["pats"])):
            return ["partition result is not bound to two lists"]
        absorbed, new_list = letn["pat"]["pats"][0]["local"], letn["pat"]["pats"][1]["local"]
        if local_of(recv_root(init)) != src_list:
            problems.append("partition does not run over the arm's own term list")
        for c in chain_calls(init)[1:]:
            nm = c.get("name")
            if nm in ("iter", "into_iter"):
                continue
            if nm == "map":
                cl = closure_of(c["args"][0]) if c["args"] else None
                okm = False
                if cl is not None and len(cl["params"]) == 1 and cl["params"][0].get("p") == "bind":
                    b = unwrap(cl["body"])
                    okm = b.get("e") == "mcall" and is_call_to(b, "FilterResolved::optimise") and local_of(b["recv"]) == cl["params"][0]["local"]
                if not okm:
                    problems.append("children are not mapped through `optimise` only")
                continue
            problems.append(f"`{nm}` in the child pipeline can drop or change terms")
        if not only_variant_pred(closure_of(init["args"][0]) if init["args"] else None, vn):
            problems.append(f"partition predicate does not select exactly the nested {vn} terms (flattening another variant into {vn} is not an identity)")
        # same.into_iter().for_each(|fc| if let X(mut l, _) = fc { rest.append(&mut l) })
        absorb_ok = False
        for n in walk(body, into_closures=False):
            if n.get("e") == "mcall" and is_call_to(n, "Iterator::for_each") and local_of(recv_root(n)) == absorbed:
                cl = closure_of(n["args"][0]) if n["args"] else None
                if cl is None or len(cl["params"]) != 1 or cl["params"][0].get("p") != "bind":
                    continue
                b = unwrap(cl["body"])
                if b.get("e") == "blockexpr":
                    st = b["b"]["stmts"]
                    b = unwrap(st[0]["x"]) if len(st) == 1 and st[0].get("s") == "expr" and b["b"].get("tail") is None else unwrap(b["b"].get("tail") or {})
                if b.get("e") == "if" and b["cond"].get("e") == "let" and local_of(b["cond"]["init"]) == cl["params"][0]["local"]:
                    pv = pat_variants(b["cond"]["pat"], FR)
                    inner = None
                    p = b["cond"]["pat"]
                    if p.get("p") == "tstruct" and p["pats"] and p["pats"][0].get("p") == "bind":
                        inner = p["pats"][0]["local"]
                    then = unwrap(b["then"])
                    if then.get("e") == "blockexpr":
                        tb = then["b"]
                        then = unwrap(tb["tail"]) if tb.get("tail") is not None else (unwrap(tb["stmts"][0]["x"]) if len(tb["stmts"]) == 1 and tb["stmts"][0].get("s") == "expr" else {})
                    app = (then.get("e") == "mcall" and then.get("name") == "append" and local_of(then["recv"]) == new_list
                           and len(then["args"]) == 1 and local_of(then["args"][0]) == inner)
                    if pv != [vn]:
                        problems.append(f"re-absorbing `if let` names {pv} instead of {vn}")
                    elif not app:
                        problems.append("nested terms are not appended to the remaining terms")
                    else:
                        absorb_ok = True
        if not absorb_ok and not any("re-absorbing" in p or "appended" in p for p in problems):
            problems.append(f"the nested {vn} terms split off by partition are never appended back (terms lost)")
        for r in refs_to(body, absorbed):
            pass
    # operations on the rebuilt list
    for n in walk(body):
        if n.get("e") == "mcall" and local_of(n["recv"]) == new_list:
            nm = n.get("name")
            if nm not in LIST_OK:
                problems.append(f"`{nm}` is applied to the term list (only {', '.join(LIST_OK)} are known not to add/drop/alter terms)")
            if nm == "remove":
                pass   # judged with the leaves below
        if n.get("e") in ("assign", "assignop") and local_of(n["l"]) == new_list:
            problems.append("the term list is reassigned")
        if n.get("e") == "index" and local_of(n["x"]) == new_list:
            problems.append("the term list is indexed")
    # result leaves
    removes = 0
    for conds, leaf in flat_leaves(arm["body"]):
        if leaf.get("e") == "call" and (leaf.get("ctor") or "").startswith(FR + "::"):
            got = last(leaf["ctor"])
            if got != vn:
                problems.append(f"rebuilds FilterResolved::{got} from the terms of a {vn}")
            elif not (leaf["args"] and local_of(leaf["args"][0]) == new_list):
                problems.append("rebuilt term list is not the merged list")
            continue
        if leaf.get("e") == "mcall" and leaf.get("name") == "remove" and local_of(leaf["recv"]) == new_list:
            removes += 1
            a = unwrap(leaf["args"][0]) if leaf["args"] else {}
            idx0 = a.get("e") == "lit" and a.get("v") == "0"
            single = False
            for pol, c in conds:
                c = unwrap(c)
                if pol and c.get("e") == "bin" and c.get("op") == "==":
                    l, r = unwrap(c["l"]), unwrap(c["r"])
                    for x, y in ((l, r), (r, l)):
                        if x.get("e") == "mcall" and x.get("name") == "len" and local_of(x["recv"]) == new_list and y.get("e") == "lit" and y.get("v") == "1":
                            single = True
            if vn not in UNWRAP:
                problems.append(f"a one-element {vn} is unwrapped to its element ({vn}[x] does not mean x)")
            elif not (idx0 and single):
                problems.append("a term is taken out of the list without the `len() == 1` guard (other terms dropped)")
            continue
        problems.append(f"arm returns `{ex_s(leaf)[:60]}` which is neither the rebuilt {vn} nor its single element")
    n_remove = sum(1 for n in walk(arm["body"]) if n.get("e") == "mcall" and n.get("name") == "remove" and local_of(n["recv"]) == new_list)
    if n_remove != removes:
        problems.append("`remove` on the term list outside the singleton-unwrap result")
    return sorted(set(problems))


# ---------------------------------------------------------------------------
# concrete evaluation of small pure functions over a finite model (K7)

class Conc:
    def __init__(self, ctx):
        self.ctx = ctx
        self.fns = {}
        self.memo = {}

    def body(self, name):
        if name not in self.fns:
            self.fns[name] = self.ctx.fn(LIB, name)
        return self.fns[name]

    def call_fn(self, name, args):
        key = (name, tuple(map(vkey, args)))
        if key in self.memo:
            return self.memo[key]
        f = self.body(name)
        env = {}
        for p, a in zip(f["params"], args):
            if p["pat"].get("p") != "bind":
                raise Shape("parameter pattern")
            env[p["pat"]["local"]] = a
        r = self.ev(f["body"], env)
        self.memo[key] = r
        return r

    def ev(self, e, env):
        k = e.get("e")
        if k == "path":
            r = e["res"]
            if "local" in r:
                return env[r["local"]]
            d = r.get("def", "")
            if d.startswith("core::cmp::Ordering::"):
                return V(last(d), [])
            if d.endswith("Option::None"):
                return V("None", [])
            raise Shape("path " + d)
        if k == "lit":
            if e.get("lk") == "bool":
                return e["v"] == "true"
            if e.get("lk") == "int":
                return int(e["v"])
            raise Shape("literal")
        if k == "wrap":
            return self.ev(e["x"], env)
        if k == "un":
            x = self.ev(e["x"], env)
            if e["op"] == "Deref":
                return x
            if e["op"] == "Not" and isinstance(x, bool):
                return not x
            raise Shape("unary " + e["op"])
        if k == "tuple":
            return T([self.ev(x, env) for x in e["xs"]])
        if k == "blockexpr":
            b = e["b"]
            env = dict(env)
            for st in b["stmts"]:
                if st.get("s") == "let" and st.get("init") is not None and st.get("else") is None:
                    v = self.ev(st["init"], env)
                    bd = pat_match(st["pat"], v, {})
                    if bd is None:
                        raise Shape("refutable let")
                    env.update(bd)
                elif st.get("s") == "item":
                    continue
                else:
                    raise Shape("statement in a pure function")
            if b.get("tail") is None:
                raise Shape("block without value")
            return self.ev(b["tail"], env)
        if k == "if":
            c = self.ev(e["cond"], env)
            if not isinstance(c, bool):
                raise Shape("non-boolean condition")
            if c:
                return self.ev(e["then"], env)
            if e.get("else") is None:
                raise Shape("if without else")
            return self.ev(e["else"], env)
        if k == "bin":
            op = e["op"]
            if op == "&&":
                l = self.ev(e["l"], env)
                return l and self.ev(e["r"], env)
            if op == "||":
                l = self.ev(e["l"], env)
                return l or self.ev(e["r"], env)
            l, r = self.ev(e["l"], env), self.ev(e["r"], env)
            if op == "==":
                return vkey(l) == vkey(r)
            if op == "!=":
                return vkey(l) != vkey(r)
            raise Shape("operator " + op)
        if k == "match":
            if e.get("src") != "Normal":
                raise Shape("match source")
            v = self.ev(e["scrut"], env)
            for a in e["arms"]:
                bd = pat_match(a["pat"], v, {})
                if bd is None:
                    continue
                if a.get("guard") is not None:
                    raise Shape("guard")
                env2 = dict(env)
                env2.update(bd)
                return self.ev(a["body"], env2)
            raise Shape("no arm matched")
        if k == "mcall":
            recv = self.ev(e["recv"], env)
            args = [self.ev(a, env) for a in e["args"]]
            if is_call_to(e, "Ord::cmp", "cmp") and len(args) == 1:
                if isinstance(recv, int) and isinstance(args[0], int):
                    return V("Less" if recv < args[0] else "Greater" if recv > args[0] else "Equal", [])
                if isinstance(recv, V) and isinstance(args[0], V) and recv.name in FRV and args[0].name in FRV:
                    return self.call_fn("kanidmd_lib::<filter::FilterResolved as core::cmp::Ord>::cmp", [recv, args[0]])
                raise Shape("cmp on " + repr(recv))
            if is_call_to(e, "FilterResolved::get_slopeyness_factor"):
                return self.call_fn(FR + "::get_slopeyness_factor", [recv])
            if is_call_to(e, "Ordering::reverse") and isinstance(recv, V):
                return V({"Less": "Greater", "Greater": "Less", "Equal": "Equal"}[recv.name], [])
            if is_call_to(e, "Ordering::then") and isinstance(recv, V) and len(args) == 1:
                return recv if recv.name != "Equal" else args[0]
            raise Shape("method " + str(e.get("name")))
        if k == "call":
            args = [self.ev(a, env) for a in e["args"]]
            c = e.get("ctor") or ""
            if c.endswith("Option::Some"):
                return V("Some", args)
            callee = e.get("resolved") or e.get("callee") or ""
            if "NonZero" in callee and callee.endswith("::new") and len(args) == 1 and isinstance(args[0], int):
                return V("Some", [args[0]]) if args[0] != 0 else V("None", [])
            raise Shape("call " + (c or callee))
        raise Shape("expression kind " + str(k))


FRV = set()


def vkey(v):
    if isinstance(v, V):
        return ("V", v.name, tuple(vkey(a) for a in (v.args or [])))
    if isinstance(v, T):
        return ("T", tuple(vkey(a) for a in v.items))
    return v


def domain(variants, nvals, slopes):
    """All abstract FilterResolved values: attribute / value / child components range over nvals ints, the slope over `slopes`."""
    out = []
    for vn, ftys in variants:
        combos = [[]]
        for ty in ftys:
            if ty == SLOPE_TY:
                opts = [V("None", []) if s is None else V("Some", [s]) for s in slopes]
            else:
                opts = list(range(nvals))
            combos = [c + [o] for c in combos for o in opts]
        for c in combos:
            out.append(V(vn, c))
    return out


def semantic_fields(v, variants):
    ftys = dict(variants)[v.name]
    return tuple(vkey(a) for a, ty in zip(v.args, ftys) if ty != SLOPE_TY)


def check_eq(ctx, variants):
    rule = "K7-eq"
    name = "kanidmd_lib::<filter::FilterResolved as core::cmp::PartialEq>::eq"
    f = ctx.fn(LIB, name)
    cv = Conc(ctx)
    dom = domain(variants, 2, [None, 1])
    bad = {}
    n_true = 0
    try:
        for x in dom:
            for y in dom:
                r = cv.call_fn(name, [x, y])
                if not isinstance(r, bool):
                    raise Shape("eq did not evaluate to a boolean")
                if r:
                    n_true += 1
                    if x.name != y.name:
                        bad.setdefault(x.name, []).append(f"{x.name} == {y.name}")
                    elif semantic_fields(x, variants) != semantic_fields(y, variants):
                        bad.setdefault(x.name, []).append(f"{x.name}{semantic_fields(x, variants)} == {y.name}{semantic_fields(y, variants)}")
    except Shape as ex:
        ctx.violation(rule, f["fn"], "shape-not-understood", f"PartialEq::eq for FilterResolved cannot be evaluated on the finite model: {ex} (fail closed)",
                      file=f["file"], line=f["line"])
        return
    for vn, _ in variants:
        ctx.check(vn not in bad, rule, f["fn"], f"eq:{vn}",
                  f"{vn}: == implies same variant, attribute, value / children",
                  f"FilterResolved::{vn}: `==` holds for terms that differ in more than the index slope (e.g. {'; '.join(bad.get(vn, [])[:3])}) — "
                  f"dedup after sorting would delete a term that is not a duplicate, changing which entries match", file=f["file"], line=f["line"])
    ctx.floor(rule, "pairs of the finite model that compare equal (positive control)", n_true, 16)
    ctx.sample(f"{rule} {len(dom)}x{len(dom)} pairs evaluated, {n_true} equal, all agree on variant + non-slope fields")


def check_ord(ctx, variants):
    rule = "K7-ord"
    name = "kanidmd_lib::<filter::FilterResolved as core::cmp::Ord>::cmp"
    f = ctx.fn(LIB, name)
    cv = Conc(ctx)
    nv = 3 if ctx.tier == "thorough" else 2
    dom = domain(variants, nv, [None, 1, 2])
    n = len(dom)
    try:
        M = [[cv.call_fn(name, [x, y]).name for y in dom] for x in dom]
    except (Shape, AttributeError, KeyError) as ex:
        ctx.violation(rule, f["fn"], "shape-not-understood", f"Ord::cmp for FilterResolved cannot be evaluated on the finite model: {ex} (fail closed)",
                      file=f["file"], line=f["line"])
        return
    rev = {"Less": "Greater", "Greater": "Less", "Equal": "Equal"}

    def show(i):
        x = dom[i]
        return x.name + str(tuple(vkey(a)[2][0] if isinstance(a, V) and a.args else (None if isinstance(a, V) else a) for a in x.args))
    refl = [show(i) for i in range(n) if M[i][i] != "Equal"]
    ctx.check(not refl, rule, f["fn"], "ord:reflexive", f"cmp(x,x) == Equal on {n} model terms",
              f"cmp(x, x) != Equal for {refl[:3]} — sort_unstable requires a total order", file=f["file"], line=f["line"])
    anti = [(show(i), show(j), M[i][j], M[j][i]) for i in range(n) for j in range(i + 1, n) if M[i][j] != rev[M[j][i]]]
    ctx.check(not anti, rule, f["fn"], "ord:antisymmetric", f"cmp(x,y) == reverse(cmp(y,x)) on {n * (n - 1) // 2} pairs",
              "cmp is not antisymmetric: " + "; ".join(f"cmp({a},{b})={r1} but cmp({b},{a})={r2}" for a, b, r1, r2 in anti[:3]) +
              " — the sort in optimise may panic or order terms inconsistently (and dedup then misses/keeps terms unpredictably)", file=f["file"], line=f["line"])
    # transitivity of <= with bitsets
    le = [0] * n
    for i in range(n):
        b = 0
        for j in range(n):
            if M[i][j] in ("Less", "Equal"):
                b |= 1 << j
        le[i] = b
    trans = []
    for i in range(n):
        for j in range(n):
            if (le[i] >> j) & 1:
                miss = le[j] & ~le[i]
                if miss:
                    kx = (miss & -miss).bit_length() - 1
                    trans.append((show(i), show(j), show(kx)))
                    break
        if len(trans) >= 3:
            break
    ctx.check(not trans, rule, f["fn"], "ord:transitive", f"x<=y<=z implies x<=z on the {n}-term model",
              "cmp is not transitive: " + "; ".join(f"{a} <= {b} <= {c} but not {a} <= {c}" for a, b, c in trans) +
              " — not a total preorder; sort_unstable may panic or misorder", file=f["file"], line=f["line"])
    # rank table for the evidence: variants ordered at equal slope
    ctx.floor(rule, "model terms", n, 60)
    ctx.sample(f"{rule} {n} model terms ({nv} values per component, slopes None/1/2): reflexive, antisymmetric, transitive")
    if not (refl or anti or trans):
        ctx.exhaustive = True


# ---------------------------------------------------------------------------
# K5-resolve

def check_resolve(ctx, fname, fc_variants, fr_variants):
    rule = "K5-resolve"
    f = ctx.fn(LIB, FR + "::" + fname)
    fcl = param_local(f, 0)
    evl = param_local(f, 1)
    m = unwrap(f["body"])
    if not ctx.check(m.get("e") == "match" and m.get("src") == "Normal" and local_of(m["scrut"]) == fcl, rule, f["fn"], f"{fname}:table-found",
                     f"{fname} = match fc {{..}}", f"{fname} is not a single `match fc` (shape not understood; fail closed)", file=f["file"], line=f["line"]):
        return {}
    frd = dict(fr_variants)
    vmap = {}
    for cn, ctys in fc_variants:
        key = f"{fname}:{cn}"
        try:
            _, arm, binds = first_arm(m, V(cn, [("fld", i) for i in range(len(ctys))]))
        except Undecided as ex:
            ctx.violation(rule, f["fn"], key, f"arm for FilterComp::{cn} not decidable: {ex}", file=f["file"], line=f["line"])
            continue
        if arm is None:
            ctx.violation(rule, f["fn"], key, f"no arm for FilterComp::{cn}", file=f["file"], line=f["line"])
            continue
        bypos = {sv[1]: l for l, sv in binds.items() if isinstance(sv, tuple) and sv[0] == "fld"}
        ctors = [n for n in walk(arm["body"]) if n.get("e") in ("call", "path", "struct") and def_of(n).startswith(FR + "::")]
        got = sorted({last(def_of(n)) for n in ctors})
        vmap[cn] = got
        want = "Eq" if cn == "SelfUuid" else cn
        problems = []
        if got != [want]:
            problems.append(f"builds FilterResolved::{got} (expected {want})")
        elif want not in frd:
            problems.append(f"FilterResolved has no variant {want}")
        else:
            c = ctors[0]
            args = c.get("args", []) if c.get("e") == "call" else []
            ftys = frd[want]
            if len(ctors) != 1:
                problems.append("more than one resolved term is built")
            elif cn == "SelfUuid":
                a0, a1 = (unwrap(args[0]), unwrap(args[1])) if len(args) >= 2 else ({}, {})
                if not (a0.get("e") == "path" and a0["res"].get("def", "").endswith("Attribute::Uuid")):
                    problems.append("attribute is not Attribute::Uuid")
                okv = False
                if a1.get("e") == "call" and (a1.get("ctor") or "").endswith("PartialValue::Uuid") and a1["args"]:
                    src = unwrap(a1["args"][0])
                    if src.get("e") == "path" and "local" in src["res"]:
                        sl = src["res"]["local"]
                        for n in walk(arm["body"]):
                            if n.get("s") == "let" and n["pat"].get("p") == "bind" and n["pat"]["local"] == sl and n.get("init") is not None:
                                src = unwrap(n["init"])
                    okv = src.get("e") == "mcall" and is_call_to(src, "Identity::get_uuid") and local_of(src["recv"]) == evl
                if not okv:
                    problems.append("value is not PartialValue::Uuid(ev.get_uuid()) of the calling identity")
            else:
                # every non-slope field: passed through from the same position (leaf) or rebuilt from the resolved children (compound)
                for i, ty in enumerate(ftys):
                    if ty == SLOPE_TY:
                        continue
                    a = unwrap(args[i]) if i < len(args) else {}
                    if "FilterResolved" in ty:
                        continue    # children: checked below
                    if local_of(a) != bypos.get(i) or bypos.get(i) is None:
                        problems.append(f"field {i} ({short(ty, 1)}) of the resolved term is not the component's own field {i}")
                if any("FilterResolved" in ty for ty in ftys):
                    problems += compound_resolve(arm, c, bypos, f, evl, want)
        ctx.check(not problems, rule, f["fn"], key, f"FilterComp::{cn} -> FilterResolved::{want} (attribute/value/children passed through)",
                  f"{fname}: FilterComp::{cn} " + "; ".join(problems) + " — the resolved filter matches different entries than the filter that was validated",
                  file=f["file"], line=arm["body"].get("line"))
        ctx.sample(f"{rule} {key} -> {got}")
    ctx.floor(rule, f"{fname} arms", len(vmap), 12)
    return vmap


def compound_resolve(arm, ctor, bypos, f, evl, want):
    """children of And/Or/Inclusion/AndNot are the recursively resolved children of the component, all of them, in place."""
    problems = []
    src = bypos.get(0)
    self_name = f["fn"]
    rec = [n for n in walk(arm["body"]) if n.get("e") == "call" and (n.get("resolved") or n.get("callee") or "") == self_name]
    if len(rec) != 1:
        return [f"children are not resolved by exactly one recursive call of {short(self_name, 1)}"]
    rc = rec[0]
    if len(rc["args"]) < 2 or local_of(rc["args"][1]) != evl:
        problems.append("recursive call does not pass the same identity")
    a0 = unwrap(ctor["args"][0]) if ctor.get("args") else {}
    # ctor sits in `X.map(|fi| FilterResolved::V(fi | Box::new(fi), ..))`
    host = None
    for n in walk(arm["body"]):
        if n.get("e") == "mcall" and n.get("name") == "map" and n["args"]:
            cl = closure_of(n["args"][0])
            if cl is not None and any(x is ctor for x in walk(cl["body"])):
                host = (n, cl)
    if host is None:
        return problems + ["resolved children are not moved into the term by `Option::map`"]
    n, cl = host
    if not is_call_to(n, "Option::<T>::map", "Option::map"):
        problems.append("the term is not built by Option::map over the resolved children")
    p = cl["params"][0] if len(cl["params"]) == 1 else {}
    inner = a0
    if inner.get("e") == "call" and ends(inner.get("callee") or inner.get("resolved") or "", "Box::<T>::new", "Box::new") and inner["args"]:
        inner = unwrap(inner["args"][0])
    if not (p.get("p") == "bind" and local_of(inner) == p["local"]):
        problems.append("the term's children are not the resolved children")
    recv = unwrap(n["recv"])
    if recv.get("e") == "path" and "local" in recv["res"]:
        loc = recv["res"]["local"]
        recv = None
        for x in walk(arm["body"]):
            if x.get("s") == "let" and x["pat"].get("p") == "bind" and x["pat"]["local"] == loc and x.get("init") is not None:
                recv = unwrap(x["init"])
        if recv is None:
            return problems + ["resolved children have an unknown origin"]
    if recv is rc or (recv.get("e") == "call" and recv is rc):
        # AndNot: resolve((*f).clone(), ..).map(..)
        a = unwrap(rc["args"][0])
        while a.get("e") == "mcall" and a.get("name") in ("clone", "as_ref", "to_owned"):
            a = unwrap(a["recv"])
        if local_of(a) != src:
            problems.append("the recursive call does not resolve the component's own child")
        return problems
    # list: vs.into_iter().map(|f| resolve(f, ..)).collect()
    if not (recv.get("e") == "mcall" and recv.get("name") == "collect"):
        return problems + ["resolved children are not collected from the component's list"]
    if local_of(recv_root(recv)) != src:
        problems.append("the child pipeline does not run over the component's own list")
    for c in chain_calls(recv)[1:]:
        nm = c.get("name")
        if nm in ("into_iter", "iter", "cloned"):
            continue
        if nm == "map":
            mcl = closure_of(c["args"][0]) if c["args"] else None
            okm = (mcl is not None and len(mcl["params"]) == 1 and mcl["params"][0].get("p") == "bind" and unwrap(mcl["body"]) is rc
                   and local_of(rc["args"][0]) == mcl["params"][0]["local"])
            if not okm:
                problems.append("children are not mapped one-to-one through the recursive resolver")
            continue
        problems.append(f"`{nm}` in the child pipeline can drop, reorder or duplicate terms")
    return problems


def run(ctx):
    F = ctx.facts
    ctx.explanation = ("Each rewrite step of optimise/fast_optimise is a Boolean identity of the reference semantics; PartialEq implies same "
                       "attribute+value/children (finite-model evaluation); both resolvers are identity variant maps (SelfUuid -> Eq(uuid, caller)); "
                       "Ord::cmp is a total preorder on a complete finite model. Not decided: Ord/Eq of Attribute/PartialValue, validation, resolve cache.")
    reference_table(ctx, rule="K4-reference")
    fr_variants = enum_variants(F, LIB, FR)
    fc_variants = enum_variants(F, LIB, FC)
    if not ctx.check(bool(fr_variants) and bool(fc_variants), "K5-resolve", "-", "enums-found", "FilterResolved / FilterComp item facts present",
                     "enum facts for filter::FilterResolved or filter::FilterComp missing"):
        return
    FRV.clear()
    FRV.update(v for v, _ in fr_variants)
    ctx.floor("K5-resolve", "FilterComp variants", len(fc_variants), 12)
    ctx.floor("K4-optimise", "FilterResolved variants", len(fr_variants), 11)
    check_optimise(ctx, "optimise", deep=True)
    check_optimise(ctx, "fast_optimise", deep=False)
    check_eq(ctx, fr_variants)
    m1 = check_resolve(ctx, "resolve_idx", fc_variants, fr_variants)
    m2 = check_resolve(ctx, "resolve_no_idx", fc_variants, fr_variants)
    for cn, _ in fc_variants:
        ctx.check(m1.get(cn) == m2.get(cn) and m1.get(cn) is not None, "K5-resolve", FR + "::resolve_no_idx", f"siblings-agree:{cn}",
                  f"{cn}: resolve_idx and resolve_no_idx both -> {m1.get(cn)}",
                  f"FilterComp::{cn} resolves to {m1.get(cn)} with index metadata but to {m2.get(cn)} without — the same filter means different things depending on whether index metadata is loaded")
    check_ord(ctx, fr_variants)
