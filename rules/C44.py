"""C44 Offline login accepts only the last password verified online — clause (K1/K3/K6/K4).

Decided (DESIGN.md C44), on type-checked HIR / MIR call rows, nothing executes:
 K1-update-callers  kanidm_update_cached_password is called only from unix_user_online_auth_step (all crates);
 K3-update-site     each such call (and every AuthResult success value of the online step) is under the arm
                    Ok(Some(token)) of KanidmClient::idm_account_unix_cred_verify, and the credential passed to the cache
                    is the same local that was sent to the server;
 K1-hash-ctor       kanidm_update_cached_password builds a Password only with Password::new_argon2id_hsm, and the value it
                    inserts under KANIDM_PWV1_KEY derives from that call;
 K6-clear-on-failure every early exit of kanidm_update_cached_password is preceded by extra_keys.remove(KANIDM_PWV1_KEY);
                    the normal exit is preceded by the insert;
 K1-cache-key       KANIDM_PWV1_KEY is touched only by the three cache helpers;
 K3-offline-success every AuthResult success value of unix_user_offline_auth_step is under the true branch of
                    kanidm_check_cached_password;
 K4-check-cached    kanidm_check_cached_password is false unless Password::verify_ctx(cred, Some((tpm, hmac_key))) of the
                    value stored under KANIDM_PWV1_KEY says Ok(true) (errors → false);
 K4-verify_ctx      Password::verify_ctx: the first arm that can match (Kdf::TPM_ARGON2ID, None) yields only Err(..); the arm for
                    (Kdf::TPM_ARGON2ID, Some(..)) goes through TpmHmacS256::hmac_s256;
 K1-tpm-kdf         Kdf::TPM_ARGON2ID is constructed only by new_argon2id_hsm (HMAC under the machine key), the storage decoder
                    and derived Clone; new_argon2id_hsm constructs no other Kdf.
Not decided: the history semantics as a whole (that the cached value *is* the last verified password under every sequence of
logins and cache writes by the resolver's db layer), the argon2/HMAC implementations, the TPM.
"""
from .lib.hir import *
from .lib import pathcond as pc
from .lib.x_sinks import (fn_root, result_leaves, tail_leaves, sites_of, pat_alts, pat_forces, entailed, prov_binds,
                          deep_tokens, deep_nodes, local_id, pat_bound_locals, leaf_pat, leaf_scrut, calls_before, ancestors,
                          uncond_nodes, loc)

META = dict(
    technique="static who-may-call (K1), sink path conditions (K3), dominance of cache clearing (K6) and the verify_ctx decision table (K4) over compiler facts",
    level_text="The credential cache is written at exactly one call site, which the compiler facts show to be dominated by the server's positive reply "
               "for the same credential; the cached value can only be an HMAC-bound TPM_ARGON2ID hash, is removed on every failure path, and the "
               "offline step succeeds only on the true branch of the cache check, which fails closed on every error and needs the HMAC context. "
               "These structural clauses hold for all login histories; the resolver cache tests need a live server and are not runnable here.",
    level_note="Decides the structural clauses listed in the module docstring (who writes the cache, under which reply, with which KDF, cleared on failure; "
               "offline success only via the cache check; TPM_ARGON2ID needs the HMAC context). Not decided: end-to-end history semantics across the db layer, "
               "the cryptographic primitives, the TPM. Trusted: rustc facts, the K3 engine, the rule tables.",
)

RES = "sparkle_resolver_common"
CRY = "kanidm_lib_crypto"
IMPL = "sparkle_resolver_common::<idprovider::kanidm::KanidmProvider as idprovider::interface::IdProvider>::"
UT = "sparkle_resolver_common::idprovider::kanidm::<impl idprovider::interface::UserToken>::"
UPDATE = UT + "kanidm_update_cached_password"
CHECK = UT + "kanidm_check_cached_password"
HAS = UT + "kanidm_has_offline_credentials"
KEY = "sparkle_resolver_common::idprovider::kanidm::KANIDM_PWV1_KEY"
AUTHRESULT = "sparkle_resolver_common::idprovider::interface::AuthResult"
SUCCESS_VARIANTS = (AUTHRESULT + "::Success", AUTHRESULT + "::SuccessUpdate")

SPEC_OK_SOME = ("v", "core::result::Result::Ok", {"0": ("v", "core::option::Option::Some", {})})
SPEC_SOME = ("v", "core::option::Option::Some", {})


def pos_pattern_lits(lits):
    return [leaf for (p, leaf) in lits.values() if p and leaf[1] in ("arm", "let")]


def success_values(root):
    return [n for n in walk(root) if n.get("e") in ("struct", "path", "call") and def_of(n) in SUCCESS_VARIANTS]


def locals_in(e):
    return {n["res"]["local"] for n in walk(e) if n.get("e") == "path" and "local" in n.get("res", {})}


def is_key_remove(n):
    return (n.get("e") == "mcall" and ends(callee_of(n), "BTreeMap::<K, V, A>::remove") and
            has_token(tokens(n.get("recv", {})), "field", "extra_keys") and
            any(has_token(tokens(a), "def", KEY) for a in n.get("args", [])))


def is_key_insert(n):
    return (n.get("e") == "mcall" and ends(callee_of(n), "BTreeMap::<K, V, A>::insert") and
            has_token(tokens(n.get("recv", {})), "field", "extra_keys") and
            n.get("args") and has_token(tokens(n["args"][0]), "def", KEY))


def run(ctx):
    _run_main(ctx)
    cache_read_modify_write_under_lock(ctx)


def _run_main(ctx):
    F = ctx.facts
    ctx.explanation = ("K1/K3/K6/K4 clauses: the password cache is written only by kanidm_update_cached_password, only from the online step under the server's "
                       "Ok(Some(token)) reply for the same credential, only with Password::new_argon2id_hsm, and cleared on every failure; offline success only "
                       "under kanidm_check_cached_password; verify_ctx errors for TPM_ARGON2ID without the HMAC context. History semantics as a whole not decided.")
    online = ctx.fn(RES, IMPL + "unix_user_online_auth_step")
    offline = ctx.fn(RES, IMPL + "unix_user_offline_auth_step")
    upd = ctx.fn(RES, UPDATE)
    chk = ctx.fn(RES, CHECK)

    # ---- K1-update-callers (all crates, MIR call rows) ---------------------------
    n_callers = 0
    crates = F.crates()
    if ctx.tier != "thorough":
        crates = [c for c in crates if any(k in c for k in ("sparkle", "unix", "flavour", "pam_", "nss_"))]
    for crate in crates:
        for (caller, callee, resolved, ln, exp, sty) in F.calls(crate):
            if callee == UPDATE or resolved == UPDATE or callee.endswith("::kanidm_update_cached_password"):
                n_callers += 1
                ok = caller.startswith(online["fn"] + "::{closure") or caller == online["fn"]
                ctx.check(ok, "K1-update-callers", caller.split("::{closure")[0], "calls:kanidm_update_cached_password",
                          "cache written from the online auth step only",
                          f"{caller} calls kanidm_update_cached_password: the offline credential cache may be written outside the online "
                          "success path (a password the server never verified could become the offline password)", line=ln)
    ctx.floor("K1-update-callers", "call rows of kanidm_update_cached_password", n_callers, 1)

    # ---- K3-update-site / online success --------------------------------------------
    root = fn_root(online)
    prov = prov_binds(root)
    binds = pc.collect_binds(root)
    ucalls = [n for n in walk(root) if n.get("e") == "mcall" and is_call_to(n, "kanidm_update_cached_password")]
    ctx.floor("K3-update-site", "calls of kanidm_update_cached_password in the online step", len(ucalls), 1)
    verify_calls = calls_in(root, "KanidmClient::idm_account_unix_cred_verify")
    ctx.floor("K3-update-site", "calls of idm_account_unix_cred_verify in the online step", len(verify_calls), 1)
    sent = set()
    for v in verify_calls:
        if len(v.get("args", [])) >= 2:
            sent |= locals_in(v["args"][-1])

    def under_online_success(lits):
        for leaf in pos_pattern_lits(lits):
            if pat_forces(leaf_pat(leaf), SPEC_OK_SOME) and \
                    has_token(deep_tokens(leaf_scrut(leaf), prov, 4), "call", "KanidmClient::idm_account_unix_cred_verify"):
                return leaf
        return None

    for node, conds in sites_of(root, ucalls):
        lits = entailed(conds, binds)
        ctx.check(under_online_success(lits) is not None, "K3-update-site", online["fn"], "update-cache:under-Ok(Some(token))",
                  "cache update only under Ok(Some(token)) of idm_account_unix_cred_verify",
                  f"kanidm_update_cached_password is called at a site that is not under the arm Ok(Some(..)) of idm_account_unix_cred_verify "
                  f"(guards {pc.render(lits)[:6]}): a denied or failed online attempt would replace the offline password",
                  **loc(online, node))
        cred_arg = node["args"][1] if len(node.get("args", [])) >= 2 else {}
        same = bool(locals_in(cred_arg) & sent)
        ctx.check(same, "K3-update-site", online["fn"], "update-cache:same-credential",
                  "the cached credential is the local that was sent to the server",
                  f"the credential cached (`{ex_s(cred_arg)[:40]}`) is not the value passed to idm_account_unix_cred_verify: "
                  "the cached password need not be the one the server verified", **loc(online, node))
        ctx.sample(f"{online['file']}:{node.get('line')} online step :: update cache under Ok(Some(token)) of idm_account_unix_cred_verify")
    succ = success_values(root)
    ctx.floor("K3-online-success", "AuthResult success values in the online step", len(succ), 1)
    for node, conds in sites_of(root, succ):
        lits = entailed(conds, binds)
        ctx.check(under_online_success(lits) is not None, "K3-online-success", online["fn"], "success:" + short(def_of(node), 1),
                  "online success only under Ok(Some(token))",
                  f"AuthResult::{short(def_of(node), 1)} is produced outside the arm Ok(Some(..)) of idm_account_unix_cred_verify (guards {pc.render(lits)[:6]})",
                  **loc(online, node))

    # ---- K1-hash-ctor / K6-clear-on-failure -------------------------------------------
    root = fn_root(upd)
    prov = prov_binds(root)
    ctors = [c for c in all_calls(root) if callee_of(c).startswith("kanidm_lib_crypto::Password::new")
             or callee_of(c).startswith("kanidm_lib_crypto::<Password as")]
    good = [c for c in ctors if callee_of(c) == "kanidm_lib_crypto::Password::new_argon2id_hsm"]
    ctx.floor("K1-hash-ctor", "Password::new_argon2id_hsm calls in kanidm_update_cached_password", len(good), 1)
    for c in ctors:
        ctx.check(c in good, "K1-hash-ctor", upd["fn"], "constructs:" + short(callee_of(c), 1),
                  "HMAC-bound hash", f"the cached hash is built with {callee_of(c)} instead of Password::new_argon2id_hsm: "
                  "it is not bound to this machine's HMAC key (a copied cache verifies anywhere)", **loc(upd, c))
    inserts = [n for n in walk(root) if is_key_insert(n)]
    ctx.floor("K1-hash-ctor", "insert(KANIDM_PWV1_KEY, ..) in kanidm_update_cached_password", len(inserts), 1)
    for ins in inserts:
        val = ins["args"][1] if len(ins["args"]) > 1 else {}
        toks = deep_tokens(val, prov, 5)
        ctx.check(has_token(toks, "call", "kanidm_lib_crypto::Password::new_argon2id_hsm") and
                  not any(t.startswith("call:kanidm_lib_crypto::Password::new") and not t.endswith("new_argon2id_hsm") for t in toks),
                  "K1-hash-ctor", upd["fn"], "insert-value<-new_argon2id_hsm",
                  "stored value derives from new_argon2id_hsm",
                  f"the value stored under KANIDM_PWV1_KEY (`{ex_s(val)[:40]}`) does not derive (only) from Password::new_argon2id_hsm", **loc(upd, ins))
    rets = [n for n in walk(root, into_closures=False) if n.get("e") == "ret"]
    ctx.floor("K6-clear-on-failure", "early exits of kanidm_update_cached_password", len(rets), 2)
    for r in rets:
        before = calls_before(root, r)
        cleared = any(is_key_remove(c) for c in before)
        seen = [short(callee_of(c), 1) for c in before if callee_of(c) and not c.get("exp")]
        # name the exit after the fallible step whose failure arm it sits in
        step = "?"
        for a in reversed(ancestors(root, r) or []):
            if a.get("e") == "match":
                sc = unwrap(a["scrut"])
                if "TryDesugar" in a.get("src", ""):
                    sc = unwrap(pc.try_inner(a))
                step = short(callee_of(sc), 1) if sc.get("e") in ("call", "mcall") else sc.get("e", "?")
                break
            if a.get("s") == "let" and "else" in a and "init" in a:
                sc = unwrap(a["init"])
                if local_id(sc) is not None and local_id(sc) in prov:
                    sc = unwrap(prov[local_id(sc)])
                step = short(callee_of(sc), 1) if sc.get("e") in ("call", "mcall") else sc.get("e", "?")
                break
            if a.get("e") == "if":
                step = "if"
                break
        ctx.check(cleared, "K6-clear-on-failure", upd["fn"], f"early-exit:on-failure-of:{step}",
                  "extra_keys.remove(KANIDM_PWV1_KEY) precedes the early return",
                  f"an early return of kanidm_update_cached_password (failure of {step}) is not preceded by extra_keys.remove(KANIDM_PWV1_KEY) "
                  f"(calls before it: {seen[-6:]}): after a failed update the previous password stays valid offline", **loc(upd, r))
    # normal exit: the insert is unconditional at the top level
    top = fn_root(upd)
    blk = top["b"] if top.get("e") == "blockexpr" else top
    top_calls = []
    for s in blk.get("stmts", []) + ([blk["tail"]] if "tail" in blk else []):
        top_calls += [n for n in uncond_nodes(s) if n.get("e") == "mcall"]
    ctx.check(any(is_key_insert(c) for c in top_calls), "K6-clear-on-failure", upd["fn"], "normal-exit:insert",
              "normal exit stores the new hash", "the normal exit of kanidm_update_cached_password is not preceded by an unconditional "
              "extra_keys.insert(KANIDM_PWV1_KEY, ..): a successful login would leave the previous password cached", **loc(upd))

    # ---- K1-cache-key -------------------------------------------------------------------
    users = [n for n in F.fns_mentioning(RES, "KANIDM_PWV1_KEY") if "__CALLSITE" not in n and n != KEY]
    real = []
    for n in users:
        rec = F.fn(RES, n)
        if rec and "body" in rec and has_token(tokens(rec["body"]), "def", KEY):
            real.append(n)
    ctx.floor("K1-cache-key", "functions touching KANIDM_PWV1_KEY", len(real), 3)
    for n in real:
        ctx.check(n in (UPDATE, CHECK, HAS), "K1-cache-key", n, "uses:KANIDM_PWV1_KEY",
                  "cache helper", f"{n} reads or writes the cached password key KANIDM_PWV1_KEY outside the three cache helpers: "
                  "the K1/K6 clauses on kanidm_update_cached_password no longer cover every write")

    # ---- K3-offline-success -----------------------------------------------------------------
    root = fn_root(offline)
    binds = pc.collect_binds(root)
    succ = success_values(root)
    ctx.floor("K3-offline-success", "AuthResult success values in the offline step", len(succ), 1)
    for node, conds in sites_of(root, succ):
        lits = entailed(conds, binds)
        ok = False
        for (p, leaf) in lits.values():
            if p and leaf[1] == "expr":
                e = unwrap(leaf[2])
                if e.get("e") == "mcall" and (CHECK in callee_any(e)):
                    ok = True
        ctx.check(ok, "K3-offline-success", offline["fn"], "success:" + short(def_of(node), 1),
                  "offline success only under kanidm_check_cached_password(..) == true",
                  f"AuthResult::{short(def_of(node), 1)} of the offline step is reachable without the true branch of kanidm_check_cached_password "
                  f"(guards {pc.render(lits)[:6]}): an offline login would be accepted without the cached password",
                  **loc(offline, node))
        ctx.sample(f"{offline['file']}:{node.get('line')} offline step :: success under kanidm_check_cached_password")

    # ---- K4-check-cached --------------------------------------------------------------------------
    root = fn_root(chk)
    prov = prov_binds(root)
    leaves = result_leaves(root)
    nonfalse = [l for l in leaves if not pc.is_bool_lit(l, False)]
    ctx.floor("K4-check-cached", "verifying results of kanidm_check_cached_password", len(nonfalse), 1)
    for l in nonfalse:
        e = unwrap(l)
        ok_wrap = e.get("e") == "mcall" and (ends(callee_of(e), "Result::<T, E>::unwrap_or_default") or
                                             (ends(callee_of(e), "Result::<T, E>::unwrap_or") and e.get("args") and pc.is_bool_lit(e["args"][0], False)))
        inner = unwrap(e.get("recv", {})) if ok_wrap else {}
        is_verify = inner.get("e") == "mcall" and callee_of(inner) == "kanidm_lib_crypto::Password::verify_ctx"
        has_ctx = is_verify and len(inner.get("args", [])) >= 2 and unwrap(inner["args"][1]).get("e") == "call" and \
            ends(unwrap(inner["args"][1]).get("ctor", ""), "core::option::Option::Some")
        from_cache = is_verify and has_token(deep_tokens(inner["recv"], prov, 6), "def", KEY) and \
            has_token(deep_tokens(inner["recv"], prov, 6), "field", "extra_keys")
        what = "verify_ctx(Some(hsm)).unwrap_or_default()" if (ok_wrap and is_verify and has_ctx and from_cache) else \
            "unrecognised:" + (short(callee_of(e)) if e.get("e") in ("call", "mcall") else str(e.get("e")) + (":" + str(e.get("v")) if e.get("e") == "lit" else ""))
        ctx.check(ok_wrap and is_verify and has_ctx and from_cache, "K4-check-cached", chk["fn"], "result:" + what,
                  "true only via verify_ctx(cred, Some((tpm, hmac_key))) of the cached value, errors → false",
                  f"kanidm_check_cached_password can return `{ex_s(e)[:70]}`, which is not `<cached Password>.verify_ctx(cred, Some((tpm, key))).unwrap_or_default()` "
                  f"[errors→false: {ok_wrap}, verify_ctx: {is_verify}, HMAC context passed: {has_ctx}, value from extra_keys[KANIDM_PWV1_KEY]: {from_cache}]",
                  **loc(chk, l))

    # ---- K4-verify_ctx ------------------------------------------------------------------------------
    vc = ctx.fn(CRY, "kanidm_lib_crypto::Password::verify_ctx")
    root = fn_root(vc)
    m = None
    for n in walk(root):
        if n.get("e") == "match" and n.get("src") == "Normal" and "Kdf" in n.get("scrut_ty", "") and "Option<" in n.get("scrut_ty", ""):
            m = n
            break
    if ctx.check(m is not None, "K4-verify_ctx", vc["fn"], "table-found", "match (&self.material, hsm) found",
                 "verify_ctx is no longer a match over (Kdf, Option<hsm context>) (shape not understood)", **loc(vc)):
        TPM = "Kdf::TPM_ARGON2ID"
        first_none = None
        first_some = None
        for a in m["arms"]:
            p = a["pat"]
            while p.get("p") == "ref":
                p = p["pat"]
            if p.get("p") != "tuple" or len(p["pats"]) != 2:
                comps = None
            else:
                comps = p["pats"]
            kd_alts = pat_alts(comps[0]) if comps else ["_"]
            covers_tpm = any(x == "_" or x.startswith(TPM) for x in kd_alts)
            if not covers_tpm or "guard" in a:
                continue
            forces_some = comps is not None and pat_forces(comps[1], SPEC_SOME)
            forces_none = comps is not None and set(pat_alts(comps[1])) == {"Option::None"}
            if first_none is None and not forces_some:
                first_none = a
            if first_some is None and not forces_none:
                first_some = a
        ok_none = first_none is not None
        if ok_none:
            ls = tail_leaves(first_none["body"]) + [x for n in walk(first_none["body"], into_closures=False)
                                                   if n.get("e") == "ret" and "x" in n for x in tail_leaves(n["x"])]
            ok_none = bool(ls) and all(unwrap(x).get("e") == "call" and ends(unwrap(x).get("ctor", ""), "core::result::Result::Err") for x in ls)
        ctx.check(ok_none, "K4-verify_ctx", vc["fn"], "row:(TPM_ARGON2ID,None)->Err",
                  "TPM_ARGON2ID without HMAC context → Err",
                  "the first arm of verify_ctx that matches (Kdf::TPM_ARGON2ID, None) does not yield only Err(..): a TPM-bound cached password "
                  "could be verified without this machine's HMAC key", **loc(vc, (first_none or {}).get("body")))
        ok_some = first_some is not None and bool(calls_in(first_some["body"], "TpmHmacS256::hmac_s256"))
        ctx.check(ok_some, "K4-verify_ctx", vc["fn"], "row:(TPM_ARGON2ID,Some)->hmac",
                  "TPM_ARGON2ID with context goes through TpmHmacS256::hmac_s256",
                  "the arm of verify_ctx for (Kdf::TPM_ARGON2ID, Some(ctx)) no longer calls TpmHmacS256::hmac_s256: the comparison is not bound to the machine key",
                  **loc(vc, (first_some or {}).get("body")))
        ctx.sample(f"{vc['file']}:{m.get('line')} verify_ctx :: (TPM_ARGON2ID,Some)->hmac_s256 ; (TPM_ARGON2ID,None)->Err")

    # ---- K1-tpm-kdf -------------------------------------------------------------------------------------
    nh = ctx.fn(CRY, "kanidm_lib_crypto::Password::new_argon2id_hsm")
    kd = sorted({def_of(n) for n in walk(nh["body"]) if n.get("e") in ("struct", "call", "path") and def_of(n).startswith("kanidm_lib_crypto::Kdf::")})
    ctx.check(kd == ["kanidm_lib_crypto::Kdf::TPM_ARGON2ID"] and bool(calls_in(nh["body"], "TpmHmacS256::hmac_s256")),
              "K1-tpm-kdf", nh["fn"], "constructs-only:TPM_ARGON2ID+hmac",
              "new_argon2id_hsm → Kdf::TPM_ARGON2ID keyed by hmac_s256",
              f"new_argon2id_hsm constructs {[short(x, 1) for x in kd]} / no longer calls TpmHmacS256::hmac_s256: the cached hash is not machine-bound", **loc(nh))
    n_tpm = 0
    ALLOW = {"kanidm_lib_crypto::Password::new_argon2id_hsm": "HMAC-keyed constructor",
             "kanidm_lib_crypto::<Password as core::convert::TryFrom<DbPasswordV1>>::try_from": "storage decoder (C12)",
             "kanidm_lib_crypto::<Kdf as core::clone::Clone>::clone": "derived Clone"}
    scan = [CRY, RES] if ctx.tier != "thorough" else [c for c in F.crates()]
    for crate in scan:
        for name in F.fns_mentioning(crate, "Kdf::TPM_ARGON2ID"):
            rec = F.fn(crate, name)
            if not rec or "body" not in rec:
                continue
            for n in walk(rec["body"]):
                if n.get("e") in ("struct", "call", "path") and def_of(n) == "kanidm_lib_crypto::Kdf::TPM_ARGON2ID":
                    n_tpm += 1
                    ctx.check(name in ALLOW, "K1-tpm-kdf", name, "constructs:TPM_ARGON2ID", ALLOW.get(name, ""),
                              f"{name} constructs Kdf::TPM_ARGON2ID outside new_argon2id_hsm / the storage decoder: a 'machine-bound' hash not keyed by hmac_s256",
                              **loc(rec, n))
    ctx.floor("K1-tpm-kdf", "constructions of Kdf::TPM_ARGON2ID", n_tpm, 3)


# ---------------------------------------------------------------------------------------------------------------------
# The sealed offline password lives in the cached user token (extra_keys). Every resolver method that reads the cached
# token and writes a token back does so as a read-modify-write; the hsm lock is the resolver's single-writer lock, so the
# read must happen after the lock is taken. Otherwise a refresh that snapshots the token, then queues behind an online
# authentication, writes the OLD password hash back over the one just verified - offline login then accepts the superseded
# password and rejects the current one. (added after seeded change C44: lock taken after the re-read in refresh_usertoken)

def cache_read_modify_write_under_lock(ctx):
    from .lib.hir import walk
    R = "K6-cache-rmw-under-lock"
    RESC = "sparkle_resolver_common"
    names = ctx.facts.find_fns(RESC, r"^sparkle_resolver_common::resolver::Resolver::[a-z_0-9]+$")
    n_rmw = 0
    for name in sorted(names):
        f = ctx.facts.fn(RESC, name)
        seq = []
        for c in walk(f["body"]):
            if c.get("e") != "mcall":
                continue
            nm = c.get("name")
            if nm == "lock" and any(x.get("e") == "field" and x.get("f") == "hsm" for x in walk(c["recv"])):
                seq.append(("LOCK", c.get("line")))
            elif nm == "get_cached_usertoken":
                seq.append(("READ", c.get("line")))
            elif nm in ("set_cache_usertoken", "delete_cache_usertoken"):
                seq.append(("WRITE", c.get("line")))
        kinds = [k for k, _ in seq]
        if "READ" in kinds and "WRITE" in kinds:
            n_rmw += 1
            ctx.analysed_fns.add(name)
            first_read = kinds.index("READ")
            ok = "LOCK" in kinds[:first_read]
            ctx.check(ok, R, name, "lock-before-cached-token-read", "hsm lock taken before the cached token is read",
                      f"{name.rsplit('::', 1)[1]} reads the cached user token (line {seq[first_read][1]}) before taking the hsm lock and later writes a token back: the "
                      "read-modify-write is not atomic, so a concurrent online authentication's freshly sealed password hash is overwritten by the stale copy — "
                      "offline login then accepts the previous password instead of the last one verified online", file=f["file"], line=seq[first_read][1])
    ctx.floor(R, "resolver methods that read and write the cached user token", n_rmw, 2)
