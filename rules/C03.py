"""C03 Indexes and name lookups always mirror the stored entries — structural clause (K1/K4/K6).

Clause (DESIGN.md C03): every backend function that writes or deletes id2entry rows applies `entry_index` to exactly those entries in
the same function; nothing else writes id2entry; index / name-map writes happen only inside `entry_index` (tables only in
reindex/create_idxs); the diff functions treat add and remove as mirror images; the cache commit flushes every dirty cache completely
before the storage commit and publishes the caches only afterwards.

Rules
  K1-writers     who-may-call allow-lists (whole workspace call graph) for the id2entry / index / name-map writers at the cache layer,
                 at the sqlite layer, for the ARCache dirty-insert primitives, for `entry_index`, for the index-table management calls and
                 for `restore` (raw writer: its only caller must reindex afterwards);
  K6-index       in each id2entry writer, every write/delete site is followed — in an enclosing block, unconditionally, with error
                 propagation, with no success return in between — by an `entry_index` pass over the same collection, with a `Some(post)`
                 (write) / `None` post (delete) argument;
  K4-entry-index `entry_index` feeds the add half of every diff to the *_add writer / `Some(v)` and the remove half to *_rem / `None`;
  K4-diff        (pre, post) tables of idx_name2uuid_diff, idx_externalid2uuid_diff, idx_uuid2spn_diff, idx_uuid2rdn_diff and idx_diff:
                 adds are built from `post` only, removals from `pre` only, same key generator on both sides for every IndexType,
                 merge loop mirrors Less/Greater;
  K4-flush       commit flush tables: every (NameCacheKey, Some/None) combination reaches the writer of its own table, mismatches are an
                 error; entry / idl caches flush Some->write, None->delete / never Ok;
  K6-commit      all dirty caches are flushed (with `?`) before `db.commit()?`, every in-memory publication comes after it.
Not decided: that the diff functions compute the right *keys*, cache coherence under eviction, quarantine (forces a reindex through the
index version), long histories.
"""
import re
from .lib.hir import *
from .lib.x_tables import (V, T, LIT, Undecided, first_arm, pat_match, enum_variants, last, local_of, try_inner, strip_try, for_loop,
                           is_trace, refs_to, recv_root, chain_calls, closure_of, param_local, pat_variants)

META = dict(
    technique="who-may-call allow-lists over the workspace call graph + order/dominance and decision-table extraction from type-checked HIR",
    level_text="Structural clause of index/entry coherence: every id2entry write or delete site is followed on every success path by entry_index over the same "
               "entries; only the allow-listed backend functions reach the id2entry, index and name-map writers (cache layer, sqlite layer and ARCache "
               "dirty primitives, whole workspace); add and remove halves of all five diff functions are mirror images for every index type; the cache "
               "commit flushes every (key, Some/None) combination to its own table before the storage commit. Complete over all writer sites, which the "
               "backend tests exercise only for one or two scripted operations.",
    level_note="Decides the structural clause only. Not decided: that the diff functions compute the right keys, cache coherence under eviction, "
               "quarantine/restore_quarantined (rely on the forced reindex), behaviour over long histories. Trusted: rustc facts, the allow-lists in the rule.",
)

LIB = "kanidmd_lib"
CORE = "kanidmd_core"
BW = "kanidmd_lib::be::BackendWriteTransaction::<'a>::"
ARC = "kanidmd_lib::be::idl_arc_sqlite::IdlArcSqliteWriteTransaction::<'_>::"
SQL = "kanidmd_lib::be::idl_sqlite::IdlSqliteWriteTransaction::"
ENT = "kanidmd_lib::entry::Entry::<entry::EntrySealed, entry::EntryCommitted>::"

NAME_WRITERS = ["write_name2uuid_add", "write_name2uuid_rem", "write_externalid2uuid_add", "write_externalid2uuid_rem",
                "write_uuid2spn", "write_uuid2rdn"]
ID2ENTRY_WRITER_FNS = ["create", "refresh", "modify", "incremental_apply", "reap_tombstones"]

# target def-path -> (allowed caller functions, reason)
ALLOW = {}
for _w in ("write_identries",):
    ALLOW[ARC + _w] = ([BW + x for x in ("create", "refresh", "modify", "incremental_apply")], "id2entry writers (each followed by entry_index, K6-index)")
ALLOW[ARC + "write_identries_raw"] = ([BW + "restore"], "raw restore; its only caller reindexes afterwards")
ALLOW[ARC + "delete_identry"] = ([BW + "reap_tombstones"], "tombstone reaping (followed by entry_index(Some, None))")
ALLOW[ARC + "write_idl"] = ([BW + "entry_index"], "index lists are written only by entry_index")
for _w in NAME_WRITERS:
    ALLOW[ARC + _w] = ([BW + "entry_index"], "name maps are written only by entry_index")
for _w in ("write_identry", "delete_identry", "write_idl") + tuple(NAME_WRITERS):
    ALLOW[SQL + _w] = ([ARC + "commit"], "sqlite rows are written only by the cache flush in commit")
ALLOW[SQL + "write_identries_raw"] = ([ARC + "write_identries_raw", SQL + "write_identry"], "raw restore / single-row helper used by the flush")
ALLOW[BW + "entry_index"] = ([BW + x for x in ("create", "refresh", "modify", "incremental_prepare", "incremental_apply", "reap_tombstones", "reindex")],
                             "indexing is driven only by the id2entry writers, the stub creation of incremental_prepare and reindex")
for _w in ("create_idx", "create_name2uuid", "create_externalid2uuid", "create_uuid2spn", "create_uuid2rdn"):
    ALLOW[ARC + _w] = ([BW + "create_idxs"], "index tables are created only by create_idxs")
ALLOW[BW + "create_idxs"] = ([BW + "reindex"], "create_idxs is part of reindex")
ALLOW[ARC + "danger_purge_idxs"] = ([BW + "reindex", BW + "danger_purge_idxs"], "indexes are purged only by reindex / full wipe")
ALLOW[BW + "danger_purge_idxs"] = ([BW + "danger_delete_all_db_content"], "full wipe")
ALLOW[ARC + "danger_purge_id2entry"] = ([BW + "danger_delete_all_db_content"], "full wipe")
ALLOW[BW + "danger_delete_all_db_content"] = ([BW + "restore", "kanidmd_lib::repl::consumer::<impl server::QueryServerWriteTransaction<'_>>::consumer_apply_refresh_v1"],
                                              "restore and replication refresh start from an empty database (both reindex afterwards)")
ALLOW[BW + "restore"] = (["kanidmd_core::restore_server_core"], "restore is raw: the caller must reindex")
DIRTY = ["concread::arcache::ARCacheWriteTxn::<'_, K, V, S>::insert_dirty", "concread::arcache::ARCacheWriteTxn::<'_, K, V, S>::remove_dirty"]
DIRTY_ALLOWED = [ARC + x for x in ["write_identries", "delete_identry", "write_idl"] + NAME_WRITERS]


def strip_closures(name):
    return re.sub(r"(::\{closure#\d+\})+$", "", name)


# ---------------------------------------------------------------------------
# K1

def run_k1(ctx):
    F = ctx.facts
    rule = "K1-writers"
    import os
    crates = []
    for c in ctx.facts.crates():
        # cheap raw pre-filter: only crates whose call rows mention the backend or the ARCache can contain a guarded call
        p = os.path.join(F.fdir, c + ".calls.tsv")
        try:
            with open(p, "rb") as fh:
                raw = fh.read()
        except OSError:
            continue
        if b"kanidmd_lib::be::" in raw or b"arcache::ARCacheWriteTxn" in raw:
            crates.append(c)
    ctx.floor(rule, "crates whose call graph mentions the backend", len(crates), 2)
    hits = {t: [] for t in ALLOW}
    dirty_hits = []
    for c in crates:
        for (caller, callee, resolved, ln, exp, sty) in F.calls(c):
            for t in (resolved, callee):
                if t in hits:
                    hits[t].append((strip_closures(caller), ln, c))
                    break
            if callee.startswith("concread::arcache::ARCacheWriteTxn") and (callee.endswith("::insert_dirty") or callee.endswith("::remove_dirty")):
                dirty_hits.append((strip_closures(caller), ln, c, callee))
    n_sites = 0
    for t, (allowed, reason) in sorted(ALLOW.items()):
        callers = hits[t]
        n_sites += len(callers)
        # positive control: every target is called at least once from an allowed place, else the call graph is empty / the anchor moved
        ctx.check(any(c[0] in allowed for c in callers), rule, t, "positive-control",
                  f"{short(t, 2)} is called from {sorted({short(c[0], 1) for c in callers})}",
                  f"no call of {t} from its allowed callers found — writer renamed/removed or call facts empty (fail closed)")
        for (caller, ln, crate) in sorted(set(callers)):
            ctx.check(caller in allowed, rule, t, f"caller:{caller}",
                      f"{short(caller, 2)} may call {short(t, 1)} ({reason})",
                      f"{caller} calls {t}, but only {[short(a, 1) for a in allowed]} may ({reason}) — "
                      f"a write outside these functions bypasses entry_index / the flush and the indexes stop mirroring the entries",
                      line=ln)
    ctx.floor(rule, "call sites of guarded writers", n_sites, 50)
    ctx.floor(rule, "ARCache insert_dirty/remove_dirty sites", len(dirty_hits), 12)
    for (caller, ln, crate, callee) in sorted(set(dirty_hits)):
        ctx.check(caller in DIRTY_ALLOWED, rule, last(callee), f"caller:{caller}",
                  f"{short(caller, 1)} marks cache rows dirty",
                  f"{caller} calls {callee}: dirty cache rows (flushed to id2entry / idx / name tables at commit) may only be produced by the "
                  f"write_* methods {[short(a, 1) for a in DIRTY_ALLOWED]}", line=ln)
    # restore's caller reindexes afterwards
    rs = ctx.fn1(CORE, r"^kanidmd_core::restore_server_core$")
    calls = [c for c in all_calls(rs["body"]) if not c.get("exp")]
    i_restore = next((i for i, c in enumerate(calls) if is_call_to(c, "BackendWriteTransaction::<'a>::restore", "restore") and "BackendWriteTransaction" in callee_of(c)), None)
    i_reindex = [i for i, c in enumerate(calls) if is_call_to(c, "kanidmd_core::reindex_inner", "BackendWriteTransaction::<'a>::reindex")]
    ctx.check(i_restore is not None and any(i > i_restore for i in i_reindex), rule, rs["fn"], "restore-then-reindex",
              "restore_server_core: be.restore(..) ... reindex_inner(..)",
              "restore_server_core no longer reindexes after BackendWriteTransaction::restore — restore writes id2entry rows raw, without entry_index",
              file=rs["file"], line=rs["line"])
    ri = ctx.fn1(CORE, r"^kanidmd_core::reindex_inner$")
    ctx.check(bool(calls_in(ri["body"], "BackendWriteTransaction::<'a>::reindex")), rule, ri["fn"], "reindex_inner-reindexes",
              "reindex_inner calls BackendWriteTransaction::reindex", "reindex_inner no longer calls BackendWriteTransaction::reindex", file=ri["file"], line=ri["line"])


# ---------------------------------------------------------------------------
# K6-index

def parents(root):
    par = {}
    stack = [root]
    while stack:
        n = stack.pop()
        if isinstance(n, dict):
            for k, v in n.items():
                if k in ("line", "exp"):
                    continue
                if isinstance(v, dict):
                    par[id(v)] = n
                    stack.append(v)
                elif isinstance(v, list):
                    for x in v:
                        if isinstance(x, dict):
                            par[id(x)] = n
                            stack.append(x)
    return par


def enclosing_stmts(node, par):
    """[(block, index, stmt-or-tail node)] from innermost to outermost; stops at a closure boundary."""
    out = []
    cur = node
    while id(cur) in par:
        p = par[id(cur)]
        if p.get("e") == "closure":
            out.append(("closure", None, p))
        if p.get("e") == "block":
            idx = None
            for i, st in enumerate(p["stmts"]):
                if st is cur:
                    idx = i
            if idx is None and p.get("tail") is cur:
                idx = len(p["stmts"])
            if idx is not None:
                out.append((p, idx, cur))
        cur = p
    return out


def roots_of(expr, body, depth=3):
    """Root locals of an iterator expression: receiver-chain root, zip/chain arguments, and (transitively) the roots of the `let` that defines them."""
    out = set()
    todo = [(expr, depth)]
    lets = None
    while todo:
        e, d = todo.pop()
        e = unwrap(e)
        if not isinstance(e, dict):
            continue
        for c in chain_calls(e):
            if c.get("name") in ("zip", "chain"):
                for a in c["args"]:
                    todo.append((a, d))
        r = recv_root(e)
        if isinstance(r, dict) and r.get("e") == "call" and r.get("args"):
            todo.append((r["args"][0], d))       # IDLBitRange::from_iter(x) / IntoIterator::into_iter(x)
            continue
        l = local_of(r)
        if l is None or l in out:
            continue
        out.add(l)
        if d > 0:
            if lets is None:
                lets = {}
                for n in walk(body):
                    if n.get("s") == "let" and n.get("init") is not None and n["pat"].get("p") == "bind":
                        lets[n["pat"]["local"]] = n["init"]
            if l in lets:
                todo.append((strip_try(lets[l]), d - 1))
    return out


def index_pass(stmt_node, selfl):
    """If the statement is `for P in IT { self.entry_index(..)? }` or `IT.try_for_each(|P| self.entry_index(..))[?]` -> (iter expr, entry_index call)."""
    e = stmt_node["x"] if stmt_node.get("s") == "expr" else stmt_node
    if stmt_node.get("s") == "let":
        return None
    e = strip_try(e)
    fl = for_loop(e)
    if fl is not None:
        it, pat, body = fl
        cs = [c for c in calls_in(body, "entry_index", into_closures=False) if local_of(c["recv"]) == selfl]
        b = unwrap(body)
        if len(cs) == 1:
            # the call must be a top-level effect of the loop body with `?`
            if b.get("e") == "blockexpr":
                stmts = b["b"]["stmts"] + ([b["b"]["tail"]] if b["b"].get("tail") is not None else [])
            else:
                stmts = [b]
            for st in stmts:
                x = st["x"] if isinstance(st, dict) and st.get("s") == "expr" else st
                if isinstance(x, dict) and try_inner(x) is not None and unwrap(try_inner(x)) is cs[0]:
                    return it, cs[0]
        return None
    if e.get("e") == "mcall" and is_call_to(e, "Iterator::try_for_each") and e["args"]:
        cl = closure_of(e["args"][0])
        if cl is not None:
            b = unwrap(cl["body"])
            if b.get("e") == "mcall" and is_call_to(b, "entry_index") and local_of(b["recv"]) == selfl:
                return e["recv"], b
    return None


def run_k6_index(ctx):
    rule = "K6-index"
    n_sites = 0
    n_fns = 0
    for name in ID2ENTRY_WRITER_FNS:
        f = ctx.fn(LIB, BW + name)
        selfl = param_local(f, 0)
        par = parents(f["body"])
        sites = [c for c in all_calls(f["body"]) if is_call_to(c, ARC + "write_identries", ARC + "delete_identry")]
        if not ctx.check(len(sites) >= 1, rule, f["fn"], f"{name}:has-write-site", f"{len(sites)} id2entry write site(s)",
                         f"{name} no longer writes id2entry through write_identries/delete_identry (writer list in the rule is stale: fail closed)", file=f["file"], line=f["line"]):
            continue
        n_fns += 1
        for k, s in enumerate(sites, 1):
            n_sites += 1
            is_delete = is_call_to(s, ARC + "delete_identry")
            key = f"{name}:{'delete_identry' if is_delete else 'write_identries'}#{k}:indexed"
            want = roots_of(s["args"][0], f["body"]) if s["args"] else set()
            found = None
            why = "no entry_index pass follows the write in an enclosing block"
            encl = enclosing_stmts(s, par)
            if any(b == "closure" for (b, _, _) in encl):
                encl = []
                why = "the id2entry write sits inside a closure (shape not understood)"
            for (blk, idx, _) in encl:
                seq = blk["stmts"] + ([blk["tail"]] if blk.get("tail") is not None else [])
                for j in range(idx + 1, len(seq)):
                    st = seq[j] if "s" in seq[j] else {"s": "expr", "x": seq[j]}
                    ip = index_pass(st, selfl)
                    if ip is None:
                        # a success return between the write and the index pass skips the indexing
                        for r in walk(seq[j], into_closures=False):
                            if r.get("e") == "ret" and r.get("x") is not None and ends(unwrap(r["x"]).get("ctor", "") or "", "Result::Ok"):
                                why = f"a `return Ok(..)` (line {r.get('line')}) sits between the id2entry write and the entry_index pass"
                                found = False
                        continue
                    it, call = ip
                    have = roots_of(it, f["body"])
                    if not (want & have):
                        why = "the entry_index pass that follows runs over a different collection than the one written"
                        continue
                    # propagated: `?` on the statement or the block's tail value
                    propagated = try_inner(st["x"]) is not None or for_loop(st["x"]) is not None or (j == len(seq) - 1 and blk.get("tail") is not None)
                    a = [unwrap(x) for x in call["args"]]
                    post_ok = len(a) == 2 and ((a[1].get("e") == "path" and a[1]["res"].get("def", "").endswith("Option::None")) if is_delete
                                               else (a[1].get("e") == "call" and ends(a[1].get("ctor") or "", "Option::Some")))
                    pre_ok = len(a) == 2 and (not is_delete or (a[0].get("e") == "call" and ends(a[0].get("ctor") or "", "Option::Some")))
                    if not propagated:
                        why = "the result of the entry_index pass is discarded (an indexing error would not abort the write)"
                        continue
                    if not (post_ok and pre_ok):
                        why = ("deleted entries must be indexed with entry_index(Some(e), None)" if is_delete
                               else "written entries must be indexed with entry_index(_, Some(post))")
                        continue
                    if found is None:
                        found = True
                    break
                if found is not None:
                    break
            ctx.check(found is True, rule, f["fn"], key,
                      f"{name}: {'delete_identry' if is_delete else 'write_identries'} is followed by entry_index over the same entries",
                      f"{name}: id2entry {'delete' if is_delete else 'write'} (line {s.get('line')}): {why} — the rows change but their index / name-map keys do not",
                      file=f["file"], line=s.get("line"))
            ctx.sample(f"{rule} {key}")
    ctx.floor(rule, "id2entry writer functions", n_fns, 5)
    ctx.floor(rule, "id2entry write/delete sites", n_sites, 6)


# ---------------------------------------------------------------------------
# side inference for the diff functions

PRE, POST = "pre", "post"


class Sides:
    """Which of (pre, post) every local of a diff function derives from (receiver-chain / pattern-position data flow)."""

    def __init__(self, fnrec, pre_local, post_local):
        self.env = {pre_local: frozenset([PRE]), post_local: frozenset([POST])}
        self.emits = []      # (ctor 'Ok'|'Err', node, side frozenset|None, ctx dict, enclosing itype variant or None)
        self.pushes = []
        self.cmp_arms = []   # (ordering variant, push sides set, (recv side, arg side))
        self.key_fns = {PRE: set(), POST: set()}
        self.itables = []    # (match node, ctx)
        self.scan(fnrec["body"], {}, None)

    def side(self, e):
        e = unwrap(e)
        if not isinstance(e, dict):
            return None
        k = e.get("e")
        if k == "path":
            return self.env.get(e["res"].get("local"))
        if k == "mcall":
            return self.side(e["recv"])
        if k == "field":
            return self.side(e["x"])
        if k == "call":
            if e.get("ctor") and e["args"]:
                return self.side(e["args"][0])
            if e.get("args") and ends(e.get("callee") or e.get("resolved") or "", "into_iter", "from_iter"):
                return self.side(e["args"][0])
            return None
        if k == "match" and str(e.get("src", "")).startswith("TryDesugar"):
            return self.side(try_inner(e))
        return None

    def bindpat(self, p, side, ctx, opt_side=None):
        k = p.get("p")
        if k == "bind":
            if side is not None:
                self.env[p["local"]] = side
            if "sub" in p:
                self.bindpat(p["sub"], side, ctx)
        elif k == "ref":
            self.bindpat(p["pat"], side, ctx)
        elif k in ("tstruct", "struct"):
            d = last(p["path"].get("def", ""))
            if side is not None and len(side) == 1:
                s = next(iter(side))
                if d in ("Some", "None"):
                    ctx[s] = "present" if d == "Some" else "absent"
                    ctx.setdefault("entry." + s, ctx[s])
            for sp in (p.get("pats") or [f["pat"] for f in p.get("fields", [])]):
                self.bindpat(sp, side, ctx)
        elif k == "expr" and "path" in p:
            d = last(p["path"].get("def", ""))
            if d == "None" and side is not None and len(side) == 1:
                ctx[next(iter(side))] = "absent"
                ctx.setdefault("entry." + next(iter(side)), "absent")
        elif k == "or":
            for sp in p["pats"]:
                self.bindpat(sp, side, ctx)

    def scan(self, n, ctx, itype):
        if isinstance(n, list):
            for x in n:
                self.scan(x, ctx, itype)
            return
        if not isinstance(n, dict):
            return
        if is_trace(n):
            return
        k = n.get("e")
        if n.get("s") == "let":
            if n.get("init") is not None:
                self.scan(n["init"], ctx, itype)
                init = unwrap(n["init"])
                if n["pat"].get("p") == "tuple":
                    sides = self.tuple_sides(init, len(n["pat"]["pats"]))
                    for sp, s in zip(n["pat"]["pats"], sides):
                        self.bindpat(sp, s, dict(ctx))
                else:
                    self.bindpat(n["pat"], self.side(init), dict(ctx))
            if n.get("else") is not None:
                self.scan(n["else"], ctx, itype)
            return
        if k == "match" and n.get("src") == "Normal":
            self.scan(n["scrut"], ctx, itype)
            scr = unwrap(n["scrut"])
            is_itype = scr.get("e") == "field" and scr.get("f") == "itype"
            if is_itype:
                self.itables.append((n, dict(ctx)))
            cmp_sides = None
            if scr.get("e") == "mcall" and is_call_to(scr, "Ord::cmp", "cmp") and len(scr["args"]) == 1:
                cmp_sides = (self.side(scr["recv"]), self.side(scr["args"][0]))
            for a in n["arms"]:
                actx = dict(ctx)
                if scr.get("e") == "tuple":
                    alts = a["pat"]["pats"] if a["pat"].get("p") == "or" else [a["pat"]]
                    for alt in alts:
                        if alt.get("p") == "tuple" and len(alt["pats"]) == len(scr["xs"]):
                            for sp, se in zip(alt["pats"], scr["xs"]):
                                self.bindpat(sp, self.side(se), actx)
                else:
                    self.bindpat(a["pat"], self.side(scr), actx)
                av = None
                if is_itype:
                    vs = pat_variants(a["pat"])
                    av = tuple(vs) if vs else ("_",)
                before = len(self.pushes)
                self.scan(a["body"], actx, av if is_itype else itype)
                if cmp_sides is not None:
                    ov = pat_variants(a["pat"])
                    sides = set()
                    for (_, s) in self.pushes[before:]:
                        sides |= set(s or ["?"])
                    self.cmp_arms.append((tuple(ov) or ("_",), sides, cmp_sides, a["body"].get("line")))
            return
        if k == "mcall":
            self.scan(n["recv"], ctx, itype)
            rs = self.side(n["recv"])
            if n.get("name") == "push" and local_of(n["recv"]) is not None and n["args"]:
                s = self.side(n["args"][0])
                l = local_of(n["recv"])
                self.pushes.append((l, s))
                if s is not None:
                    self.env[l] = (self.env.get(l) or frozenset()) | s
            if n.get("name") in ("difference", "symmetric_difference", "intersection", "union") and n["args"]:
                self.emits.append(("setop:" + n["name"], n, rs, dict(ctx), self.side(n["args"][0])))
            if rs is not None and len(rs) == 1 and re.match(r"^(get_|generate_idx_)", n.get("name") or "") and unwrap(n["recv"]).get("e") == "path":
                self.key_fns[next(iter(rs))].add(n["name"])
            for a in n["args"]:
                cl = closure_of(a)
                if cl is not None:
                    if len(cl["params"]) == 1 and rs is not None:
                        self.bindpat(cl["params"][0], rs, dict(ctx))
                    self.scan(cl["body"], ctx, itype)
                else:
                    self.scan(a, ctx, itype)
            return
        if k == "call" and n.get("ctor") and (n["ctor"].endswith("Result::Ok") or n["ctor"].endswith("Result::Err")):
            arg = unwrap(n["args"][0]) if n["args"] else {}
            key = arg["xs"][-1] if arg.get("e") == "tuple" and arg["xs"] else arg
            ks = self.side(key)
            self.emits.append((last(n["ctor"]), n, ks, dict(ctx), itype))
            for a in n["args"]:
                self.scan(a, ctx, itype)
            return
        if k == "assign":
            self.scan(n["r"], ctx, itype)
            l = local_of(n["l"])
            s = self.side(n["r"])
            if l is not None and s is not None and l not in self.env:
                self.env[l] = s
            return
        for kk, v in n.items():
            if kk in ("line", "exp"):
                continue
            if isinstance(v, (dict, list)):
                self.scan(v, ctx, itype)

    def tuple_sides(self, e, n):
        """Sides of the components of a tuple-valued expression (through match/if/blocks: all leaves must agree)."""
        e = unwrap(e)
        k = e.get("e")
        if k == "tuple" and len(e["xs"]) == n:
            return [self.side(x) for x in e["xs"]]
        outs = []
        if k == "match":
            outs = [self.tuple_sides(a["body"], n) for a in e["arms"]]
        elif k == "if":
            outs = [self.tuple_sides(e["then"], n)] + ([self.tuple_sides(e["else"], n)] if e.get("else") else [])
        elif k == "blockexpr" and e["b"].get("tail") is not None:
            return self.tuple_sides(e["b"]["tail"], n)
        elif k in ("call", "mcall"):
            return [None] * n
        res = []
        for i in range(n):
            ss = {o[i] for o in outs if o[i] is not None}
            res.append(next(iter(ss)) if len(ss) == 1 else None)
        return res or [None] * n


def opt_leaves(e, conds=()):
    """Leaves of an expression with the (pattern, polarity) context: [(conds, leaf)]"""
    e = unwrap(e)
    k = e.get("e")
    if k == "blockexpr":
        return opt_leaves(e["b"]["tail"], conds) if e["b"].get("tail") is not None else []
    if k == "if":
        out = opt_leaves(e["then"], conds + (("if", True, e["cond"]),))
        if e.get("else") is not None:
            out += opt_leaves(e["else"], conds + (("if", False, e["cond"]),))
        return out
    return [(conds, e)]


def shape(e, S):
    """Abstract shape of a diff result component: 'None' | ('Some', inner) | ('Ok', side) | ('Err',) | ('val', side)"""
    e = unwrap(e)
    if e.get("e") == "path" and e["res"].get("def", "").endswith("Option::None"):
        return "None"
    if e.get("e") == "call" and e.get("ctor"):
        c = last(e["ctor"])
        if c == "Some":
            return ("Some", shape(e["args"][0], S))
        if c == "Ok":
            return ("Ok", S.side(e["args"][0]))
        if c == "Err":
            return ("Err",)
    return ("val", S.side(e))


def run_k4_diff(ctx):
    F = ctx.facts
    rule = "K4-diff"
    rows_total = 0
    for name, kind in (("idx_name2uuid_diff", "pair"), ("idx_externalid2uuid_diff", "pair"), ("idx_uuid2spn_diff", "act"), ("idx_uuid2rdn_diff", "act")):
        f = ctx.fn(LIB, ENT + name)
        pre, post = param_local(f, 0), param_local(f, 1)
        m = unwrap(f["body"])
        okm = m.get("e") == "match" and unwrap(m["scrut"]).get("e") == "tuple" and [local_of(x) for x in unwrap(m["scrut"])["xs"]] == [pre, post]
        if not ctx.check(okm, rule, f["fn"], f"{name}:table-found", "match (pre, post) {..}", f"{name} is not a `match (pre, post)` table (shape not understood; fail closed)",
                         file=f["file"], line=f["line"]):
            continue
        S = Sides(f, pre, post)
        for (rp, rq) in (("None", "None"), ("None", "Some"), ("Some", "None"), ("Some", "Some")):
            rows_total += 1
            key = f"{name}:({rp},{rq})"
            try:
                _, arm, _ = first_arm(m, T([V(rp, [None] if rp == "Some" else []), V(rq, [None] if rq == "Some" else [])]))
            except Undecided as ex:
                ctx.violation(rule, f["fn"], key, f"row not decidable: {ex}", file=f["file"], line=f["line"])
                continue
            problems = []
            lv = opt_leaves(arm["body"])
            if kind == "pair":
                shapes = []
                for conds, leaf in lv:
                    if leaf.get("e") != "tuple" or len(leaf["xs"]) != 2:
                        problems.append("result is not an (add, remove) pair")
                        continue
                    a, r = shape(leaf["xs"][0], S), shape(leaf["xs"][1], S)
                    shapes.append((a, r))

                    def sd(x):
                        if x == "None":
                            return None
                        if x[0] == "Some":
                            return sd(x[1])
                        return x[1] if len(x) > 1 else frozenset(["?"])
                    sa, sr = sd(a), sd(r)
                    if sa is not None and sa != frozenset([POST]):
                        problems.append(f"the add half is built from {sorted(sa)} (must be post only)")
                    if sr is not None and sr != frozenset([PRE]):
                        problems.append(f"the remove half is built from {sorted(sr)} (must be pre only)")
                    if rq == "None" and sa is not None:
                        problems.append("keys are added although there is no post state")
                    if rp == "None" and sr is not None:
                        problems.append("keys are removed although there is no pre state")
                    if (rp, rq) == ("None", "Some") and sa is None:
                        problems.append("a new entry adds no keys")
                    if (rp, rq) == ("Some", "None") and sr is None:
                        problems.append("a removed entry removes no keys")
                if (rp, rq) == ("Some", "Some") and not any(a != "None" and r != "None" for a, r in shapes):
                    problems.append("a changed entry never yields both an add and a remove half")
            else:
                shapes = [shape(leaf, S) for _, leaf in lv]
                for sh in shapes:
                    if sh == "None":
                        continue
                    if sh[0] != "Some" or sh[1][0] not in ("Ok", "Err"):
                        problems.append("result is not None / Some(Ok(new)) / Some(Err(())))")
                        continue
                    if sh[1][0] == "Ok" and sh[1][1] != frozenset([POST]):
                        problems.append(f"the new value is built from {sorted(sh[1][1] or ['?'])} (must be post only)")
                    if sh[1][0] == "Err" and (rp, rq) != ("Some", "None"):
                        problems.append("a removal is produced although a post state exists / no pre state exists")
                    if sh[1][0] == "Ok" and rq == "None":
                        problems.append("a value is set although there is no post state")
                want = {("None", "None"): {"None"}, ("None", "Some"): {"Ok"}, ("Some", "None"): {"Err"}, ("Some", "Some"): {"Ok", "None"}}[(rp, rq)]
                got = {("None" if s == "None" else s[1][0]) if (s == "None" or s[0] == "Some") else "?" for s in shapes}
                if got != want:
                    problems.append(f"row yields {sorted(got)}, expected {sorted(want)}")
            # set differences must be (own side) minus (other side)
            for (kind_e, node, rs, _, arg_s) in S.emits:
                if kind_e.startswith("setop:") and any(x is node for x in walk(arm["body"])):
                    if kind_e != "setop:difference" or rs is None or arg_s is None or rs == arg_s:
                        problems.append(f"`{kind_e[6:]}` between {sorted(rs or ['?'])} and {sorted(arg_s or ['?'])} is not a pre/post difference")
            ctx.check(not problems, rule, f["fn"], key, f"{name} row ({rp},{rq}): adds from post, removes from pre",
                      f"{name} row (pre={rp}, post={rq}): " + "; ".join(sorted(set(problems))) + " — add and remove are no longer mirror images, so a rename/delete leaves stale keys or drops live ones",
                      file=f["file"], line=arm["body"].get("line"))
        ctx.check(S.key_fns[PRE] == S.key_fns[POST] and len(S.key_fns[PRE]) >= 1, rule, f["fn"], f"{name}:same-key-function",
                  f"pre and post keys both come from {sorted(S.key_fns[PRE])}",
                  f"{name}: pre-state keys come from {sorted(S.key_fns[PRE])} but post-state keys from {sorted(S.key_fns[POST])} — removal would not undo what the add wrote",
                  file=f["file"], line=f["line"])
        ctx.sample(f"{rule} {name}: 4 rows, key fn {sorted(S.key_fns[PRE])}")
    ctx.floor(rule, "name-map diff rows", rows_total, 16)

    # ---- idx_diff ----------------------------------------------------------
    f = ctx.fn(LIB, ENT + "idx_diff")
    pre, post = param_local(f, 1), param_local(f, 2)
    S = Sides(f, pre, post)
    itypes = [v for v, _ in (enum_variants(F, LIB, "kanidmd_lib::value::IndexType") or [])]
    ctx.floor(rule, "IndexType variants", len(itypes), 4)
    ctx.floor(rule, "idx_diff per-index-type tables", len(S.itables), 6)
    ems = [e for e in S.emits if e[0] in ("Ok", "Err")]
    ctx.floor(rule, "idx_diff emissions (Ok=add / Err=remove)", len(ems), 18)
    per_type = {t: {"Ok": set(), "Err": set()} for t in itypes}
    for (ctor, node, ks, cx, itv) in ems:
        want = POST if ctor == "Ok" else PRE
        other = PRE if ctor == "Ok" else POST
        if ks is not None:
            ok = ks == frozenset([want])
            how = f"key from {sorted(ks)}"
        else:
            ok = cx.get(want) == "present" and cx.get(other) == "absent"
            how = f"constant key in context {cx}"
        tv = itv or ("?",)
        for t in tv:
            ctx.check(ok, rule, f["fn"], f"idx_diff:{'add' if ctor == 'Ok' else 'remove'}:{t}:{'+'.join(sorted(k + '=' + v for k, v in cx.items()))}",
                      f"{ctor}(..) {how}",
                      f"idx_diff emits {ctor} ({'add' if ctor == 'Ok' else 'remove'}) for index type {t} with a {how}: adds must use post-state keys and removals pre-state keys "
                      f"— otherwise the index keeps keys of values that are gone or misses keys of values that exist",
                      file=f["file"], line=node.get("line"))
    # generator agreement per index type across all tables (add <-> remove mirror, every IndexType handled the same way on both sides)
    for t in itypes:
        gens = {"rem": [], "add": [], "both": []}
        for (tb, cx) in S.itables:
            try:
                _, arm, _ = first_arm(tb, V(t, []))
            except Undecided:
                arm = None
            if arm is None:
                continue
            g = sorted({c.get("name") for c in all_calls(arm["body"]) if re.match(r"^generate_idx_\w+_keys$", c.get("name") or "")})
            has_ok = bool(constructs(arm["body"], "Result::Ok"))
            has_err = bool(constructs(arm["body"], "Result::Err"))
            role = "both" if (has_ok and has_err) or (not has_ok and not has_err) else ("add" if has_ok else "rem")
            by_side = {PRE: set(), POST: set()}
            for c in all_calls(arm["body"]):
                if re.match(r"^generate_idx_\w+_keys$", c.get("name") or ""):
                    s = S.side(c["recv"])
                    if s is not None and len(s) == 1:
                        by_side[next(iter(s))].add(c["name"])
            gens[role].append((g, has_ok or has_err, by_side, tb.get("line")))
        rem_g = {tuple(g) for (g, _, _, _) in gens["rem"]}
        add_g = {tuple(g) for (g, _, _, _) in gens["add"]}
        rem_e = {e for (_, e, _, _) in gens["rem"]}
        add_e = {e for (_, e, _, _) in gens["add"]}
        both_sym = all(bs[PRE] == bs[POST] for (_, _, bs, _) in gens["both"])
        both_g = {tuple(sorted(bs[PRE] | bs[POST])) for (_, _, bs, _) in gens["both"] if bs[PRE] | bs[POST]}
        allg = rem_g | add_g | both_g
        ok = len(rem_g) <= 1 and rem_g == add_g and rem_e == add_e and both_sym and len({g for g in allg if g}) <= 1 and len(gens["rem"]) == len(gens["add"]) >= 2
        ctx.check(ok, rule, f["fn"], f"idx_diff:mirror:{t}",
                  f"{t}: remove tables use {sorted(rem_g)}, add tables {sorted(add_g)}, both-present {sorted(both_g)}",
                  f"idx_diff treats IndexType::{t} asymmetrically: remove tables use generators {sorted(rem_g)} (emit={sorted(rem_e)}), add tables {sorted(add_g)} (emit={sorted(add_e)}), "
                  f"both-present tables {sorted(both_g)} (pre/post same: {both_sym}) — keys written on add would not be the keys removed on delete/modify",
                  file=f["file"], line=f["line"])
    # merge loop: smaller-only element belongs to the side it came from
    n_cmp = 0
    for (ov, sides, (s1, s2), line) in S.cmp_arms:
        if s1 is None or s2 is None or s1 == s2:
            continue
        n_cmp += 1
        exp = {"Less": set(s1), "Greater": set(s2), "Equal": set()}.get(ov[0] if ov else "_")
        if exp is None:
            continue
        ctx.check(sides == exp, rule, f["fn"], f"idx_diff:merge:{ov[0]}",
                  f"merge arm {ov[0]} records keys of {sorted(exp) or 'nothing'}",
                  f"idx_diff merge loop: arm Ordering::{ov[0]} records keys from {sorted(sides)}, expected {sorted(exp)} — a key present only in the pre (post) list must be removed (added)",
                  file=f["file"], line=line)
    ctx.floor(rule, "idx_diff merge arms", n_cmp, 3)


# ---------------------------------------------------------------------------
# K4-entry-index: halves of each diff reach the matching writer

def run_k4_entry_index(ctx):
    rule = "K4-entry-index"
    f = ctx.fn(LIB, BW + "entry_index")
    body = f["body"]
    # locals bound from the diff calls
    halves = {}     # local -> (diff fn, 'add'|'rem'|'act')
    for n in walk(body):
        if n.get("s") == "let" and n.get("init") is not None:
            init = unwrap(n["init"])
            if init.get("e") == "call":
                cal = callee_of(init)
                for d in ("idx_name2uuid_diff", "idx_externalid2uuid_diff"):
                    if cal.endswith("::" + d) and n["pat"].get("p") == "tuple" and len(n["pat"]["pats"]) == 2:
                        for sp, h in zip(n["pat"]["pats"], ("add", "rem")):
                            if sp.get("p") == "bind":
                                halves[sp["local"]] = (d, h)
                for d in ("idx_uuid2spn_diff", "idx_uuid2rdn_diff"):
                    if cal.endswith("::" + d) and n["pat"].get("p") == "bind":
                        halves[n["pat"]["local"]] = (d, "act")
    for d in ("idx_name2uuid_diff", "idx_externalid2uuid_diff", "idx_uuid2spn_diff", "idx_uuid2rdn_diff", "idx_diff"):
        ctx.check(bool(calls_in(body, ENT + d)), rule, f["fn"], f"applies:{d}", f"entry_index evaluates {d}",
                  f"entry_index no longer evaluates {d}: that table is never updated when entries change", file=f["file"], line=f["line"])
    # if let Some(x) = HALF { writer(.., x) }
    n_ok = 0
    for n in walk(body):
        if n.get("e") == "if" and n["cond"].get("e") == "let":
            src = local_of(n["cond"]["init"])
            if src in halves and halves[src][1] in ("add", "rem"):
                d, h = halves[src]
                stem = d[len("idx_"):-len("_diff")]
                ws = [c for c in all_calls(n["then"]) if (c.get("name") or "").startswith("write_")]
                names = sorted({c["name"] for c in ws})
                want = f"write_{stem}_{h}"
                ctx.check(names == [want], rule, f["fn"], f"{d}:{h}->{want}", f"{h} half of {d} -> {names}",
                          f"entry_index passes the {h} half of {d} to {names} (expected {want}) — added names would be removed or removed names kept",
                          file=f["file"], line=n.get("line"))
                n_ok += 1
        if n.get("e") == "match" and n.get("src") == "Normal":
            src = local_of(n["scrut"])
            if src in halves and halves[src][1] == "act":
                d, _ = halves[src]
                stem = d[len("idx_"):-len("_diff")]
                rows = {"None": V("None", []), "Some(Ok)": V("Some", [V("Ok", [None])]), "Some(Err)": V("Some", [V("Err", [None])])}
                for rk, rv in rows.items():
                    try:
                        _, arm, _ = first_arm(n, rv)
                    except Undecided:
                        arm = None
                    ws = [c for c in all_calls(arm["body"]) if (c.get("name") or "").startswith("write_")] if arm else []
                    if rk == "None":
                        ok = arm is not None and not ws
                    else:
                        ok = len(ws) == 1 and ws[0]["name"] == f"write_{stem}" and len(ws[0]["args"]) == 2
                        if ok:
                            a = unwrap(ws[0]["args"][1])
                            is_some = a.get("e") == "call" and ends(a.get("ctor") or "", "Option::Some")
                            is_none = a.get("e") == "path" and a["res"].get("def", "").endswith("Option::None")
                            ok = is_some if rk == "Some(Ok)" else is_none
                    ctx.check(ok, rule, f["fn"], f"{d}:{rk}", f"{d} {rk} -> {'no write' if rk == 'None' else 'write_' + stem + ('(uuid, Some(v))' if rk == 'Some(Ok)' else '(uuid, None)')}",
                              f"entry_index row {rk} of {d} does not " + ("leave the map untouched" if rk == "None" else f"call write_{stem}(uuid, {'Some(value)' if rk == 'Some(Ok)' else 'None'})") +
                              " — the uuid map would keep a stale value or lose a live one", file=f["file"], line=n.get("line"))
                    n_ok += 1
    ctx.floor(rule, "diff-half to writer links", n_ok, 18)
    # idx_diff actions: Ok -> insert_id, Err -> remove_id, both written back with write_idl
    tbl = None
    for n in walk(body):
        if n.get("e") == "match" and n.get("src") == "Normal" and "Result" in n.get("scrut_ty", "") and any(calls_in(a["body"], ARC + "write_idl") for a in n["arms"]):
            tbl = n
    if ctx.check(tbl is not None, rule, f["fn"], "idx_diff:action-table", "match act { Ok => .., Err => .. } found",
                 "entry_index no longer applies idx_diff actions through a match on Ok/Err (shape not understood)", file=f["file"], line=f["line"]):
        for rk, meth in (("Ok", "insert_id"), ("Err", "remove_id")):
            try:
                _, arm, _ = first_arm(tbl, V(rk, [None]))
            except Undecided:
                arm = None
            names = {c.get("name") for c in all_calls(arm["body"]) if not c.get("exp")} if arm else set()
            other = "remove_id" if meth == "insert_id" else "insert_id"
            ctx.check(meth in names and other not in names and "write_idl" in names, rule, f["fn"], f"idx_diff:{rk}->{meth}",
                      f"{rk} action: {meth} then write_idl",
                      f"entry_index applies idx_diff action {rk} with {sorted(x for x in names if x in ('insert_id', 'remove_id', 'write_idl'))} (expected {meth} + write_idl) — adds and removals of index keys are swapped or lost",
                      file=f["file"], line=tbl.get("line"))


# ---------------------------------------------------------------------------
# K4-flush / K6-commit

def run_commit(ctx):
    F = ctx.facts
    f = ctx.fn(LIB, ARC + "commit")
    body = f["body"]
    selfl = param_local(f, 0)
    # let IdlArcSqliteWriteTransaction { db, entry_cache, .. } = self;
    fields = {}
    for n in walk(body):
        if n.get("s") == "let" and n["pat"].get("p") == "struct" and n.get("init") is not None and local_of(n["init"]) == selfl:
            for fl in n["pat"]["fields"]:
                if fl["pat"].get("p") == "bind":
                    fields[fl["f"]] = fl["pat"]["local"]
    st = F.item(LIB, "struct", "kanidmd_lib::be::idl_arc_sqlite::IdlArcSqliteWriteTransaction")
    ftys = {x["f"]: x["ty"] for x in st["variants"][0]["fields"]} if st else {}
    if not ctx.check(bool(fields) and "db" in fields and bool(ftys), "K6-commit", f["fn"], "destructure-found", "commit destructures self",
                     "IdlArcSqliteWriteTransaction::commit no longer destructures `self` into its fields (shape not understood; fail closed)", file=f["file"], line=f["line"]):
        return
    # which caches get dirty rows: fields on which insert_dirty / remove_dirty is called anywhere in the impl
    dirty_fields = set()
    for name in F.find_fns(LIB, r"IdlArcSqliteWriteTransaction::<'_>::\w+$"):
        g = F.fn(LIB, name)
        for c in all_calls(g["body"]):
            if c.get("name") in ("insert_dirty", "remove_dirty"):
                r = unwrap(c["recv"])
                if r.get("e") == "field":
                    dirty_fields.add(r["f"])
    ctx.floor("K6-commit", "caches that receive dirty rows", len(dirty_fields), 3)
    calls = [c for c in all_calls(body) if not c.get("exp")]
    pos = {id(c): i for i, c in enumerate(calls)}
    dbc = [c for c in calls if c.get("e") == "mcall" and c.get("name") == "commit" and local_of(c["recv"]) == fields["db"]]
    par = parents(body)

    def has_try(c):
        cur = c
        while id(cur) in par:
            p = par[id(cur)]
            if p.get("e") == "match" and str(p.get("src", "")).startswith("TryDesugar"):
                return True
            if p.get("e") in ("block", "closure"):
                return False
            cur = p
        return False
    if not ctx.check(len(dbc) == 1 and has_try(dbc[0]), "K6-commit", f["fn"], "db-commit", "exactly one `db.commit()?`",
                     f"commit must contain exactly one `db.commit()?` (found {len(dbc)}, error-propagated: {bool(dbc) and has_try(dbc[0])})", file=f["file"], line=f["line"]):
        return
    pdb = pos[id(dbc[0])]
    flushes = {}
    for c in calls:
        if c.get("e") == "mcall" and c.get("name") == "iter_mut_mark_clean":
            for fl, loc in fields.items():
                if local_of(c["recv"]) == loc:
                    flushes[fl] = c
    for fl in sorted(dirty_fields):
        c = flushes.get(fl)
        # the flush chain: X.iter_mut_mark_clean().try_for_each(..)[.map_err(..)]?
        ok = False
        if c is not None:
            cur = c
            chain = []
            while id(cur) in par and par[id(cur)].get("e") in ("mcall", "wrap") and unwrap(par[id(cur)].get("recv", par[id(cur)].get("x"))) is cur:
                cur = par[id(cur)]
                if cur.get("e") == "mcall":
                    chain.append(cur.get("name"))
            ok = "try_for_each" in chain and has_try(cur) and pos[id(c)] < pdb
        ctx.check(ok, "K6-commit", f["fn"], f"flush-before-db-commit:{fl}",
                  f"{fl}.iter_mut_mark_clean().try_for_each(..)? precedes db.commit()?",
                  f"commit: dirty rows of `{fl}` are not flushed with error propagation before `db.commit()?` — committed storage would miss writes that readers of the cache already see",
                  file=f["file"], line=(c or f).get("line"))
    # publications after the storage commit
    n_pub = 0
    for c in calls:
        if c.get("e") == "mcall" and c.get("name") == "commit" and c is not dbc[0]:
            fl = next((k for k, loc in fields.items() if local_of(c["recv"]) == loc), None)
            if fl is None:
                continue
            n_pub += 1
            ctx.check(pos[id(c)] > pdb, "K6-commit", f["fn"], f"publish-after-db-commit:{fl}", f"{fl}.commit() after db.commit()?",
                      f"commit: `{fl}.commit()` publishes in-memory state before `db.commit()?` succeeded — a failed storage commit would leave the caches ahead of the database",
                      file=f["file"], line=c.get("line"))
    ctx.floor("K6-commit", "in-memory publications", n_pub, 8)
    pubs = {k for k, loc in fields.items() for c in calls if c.get("e") == "mcall" and c.get("name") == "commit" and local_of(c["recv"]) == loc}
    for fl in sorted(dirty_fields):
        ctx.check(fl in pubs, "K6-commit", f["fn"], f"published:{fl}", f"{fl} is published", f"commit never publishes `{fl}` (its flushed rows are dropped from the cache view)",
                  file=f["file"], line=f["line"])

    # ---- flush tables -----------------------------------------------------------
    rule = "K4-flush"

    def flush_table(fl):
        c = flushes.get(fl)
        if c is None:
            return None, None
        cur = c
        while id(cur) in par and par[id(cur)].get("e") == "mcall" and unwrap(par[id(cur)]["recv"]) is cur:
            cur = par[id(cur)]
            if cur.get("name") == "try_for_each" and cur["args"]:
                cl = closure_of(cur["args"][0])
                if cl is not None:
                    b = unwrap(cl["body"])
                    if b.get("e") == "blockexpr" and b["b"].get("tail") is not None and not b["b"]["stmts"]:
                        b = unwrap(b["b"]["tail"])
                    if b.get("e") == "match":
                        return cl, b
        return None, None

    def sql_calls(node):
        return [c for c in all_calls(node) if c.get("e") == "mcall" and local_of(c["recv"]) == fields["db"] and not c.get("exp")]

    # name cache
    cl, tb = flush_table("name_cache")
    keys = enum_variants(F, LIB, "kanidmd_lib::be::idl_arc_sqlite::NameCacheKey") or []
    vals = enum_variants(F, LIB, "kanidmd_lib::be::idl_arc_sqlite::NameCacheValue") or []
    ctx.floor(rule, "NameCacheKey variants", len(keys), 4)
    if ctx.check(tb is not None and unwrap(tb["scrut"]).get("e") == "tuple", rule, f["fn"], "name_cache:table-found", "match (k, v) {..} found",
                 "name cache flush is not a `match (k, v)` table inside try_for_each (shape not understood; fail closed)", file=f["file"], line=f["line"]):
        for kn, _ in keys:
            stem = kn.lower()
            # None -> removal writer of the same table
            try:
                _, arm, _ = first_arm(tb, T([V(kn, [None]), V("None", [])]))
            except Undecided:
                arm = None
            ws = sql_calls(arm["body"]) if arm else []
            okn = len(ws) == 1 and ws[0]["name"] in (f"write_{stem}_rem", f"write_{stem}")
            if okn and ws[0]["name"] == f"write_{stem}":
                a = unwrap(ws[0]["args"][-1])
                okn = a.get("e") == "path" and a["res"].get("def", "").endswith("Option::None")
            ctx.check(okn, rule, f["fn"], f"name_cache:({kn},None)", f"({kn}, None) -> {[w['name'] for w in ws]}",
                      f"name cache flush: a removed {kn} row is flushed with {[w['name'] for w in ws] or 'nothing'} (expected write_{stem}_rem / write_{stem}(.., None)) — the deleted name would survive in sqlite",
                      file=f["file"], line=(arm["body"].get("line") if arm else f["line"]))
            adders = []
            for vn, _ in vals:
                try:
                    _, arm, _ = first_arm(tb, T([V(kn, [None]), V("Some", [V(vn, [None])])]))
                except Undecided:
                    arm = None
                ws = sql_calls(arm["body"]) if arm else []
                b = unwrap(arm["body"]) if arm else {}
                is_err = b.get("e") == "call" and ends(b.get("ctor") or "", "Result::Err")
                if ws:
                    oka = len(ws) == 1 and ws[0]["name"] in (f"write_{stem}_add", f"write_{stem}")
                    if oka and ws[0]["name"] == f"write_{stem}":
                        a = unwrap(ws[0]["args"][-1])
                        oka = a.get("e") == "call" and ends(a.get("ctor") or "", "Option::Some")
                    adders.append(vn)
                    ctx.check(oka, rule, f["fn"], f"name_cache:({kn},Some({vn}))", f"({kn}, Some({vn})) -> {ws[0]['name']}",
                              f"name cache flush: ({kn}, Some({vn})) is flushed with {[w['name'] for w in ws]} (expected write_{stem}_add / write_{stem}(.., Some(v))) — the row lands in another table",
                              file=f["file"], line=arm["body"].get("line"))
                else:
                    ctx.check(is_err, rule, f["fn"], f"name_cache:({kn},Some({vn}))", f"({kn}, Some({vn})) -> Err (mismatched value type)",
                              f"name cache flush: the combination ({kn}, Some({vn})) is neither written nor an error — a dirty row would be silently dropped",
                              file=f["file"], line=(arm["body"].get("line") if arm else f["line"]))
            ctx.check(len(adders) >= 1, rule, f["fn"], f"name_cache:{kn}:has-add", f"{kn} rows are written for value types {adders}",
                      f"name cache flush: no value type of {kn} is ever written to sqlite", file=f["file"], line=f["line"])
            ctx.sample(f"{rule} name_cache {kn}: None->rem, Some({adders})->add, other->Err")
    # entry cache / idl cache: match v { Some(x) => write, None => delete | never Ok }
    for fl, some_w, none_w in (("entry_cache", "write_identry", "delete_identry"), ("idl_cache", "write_idl", None)):
        cl, tb = flush_table(fl)
        if not ctx.check(tb is not None, rule, f["fn"], f"{fl}:table-found", "match v {..} found", f"{fl} flush is not a `match` inside try_for_each (shape not understood)",
                         file=f["file"], line=f["line"]):
            continue
        try:
            _, a_some, _ = first_arm(tb, V("Some", [None]))
            _, a_none, _ = first_arm(tb, V("None", []))
        except Undecided:
            a_some = a_none = None
        ws = [w["name"] for w in sql_calls(a_some["body"])] if a_some else []
        ctx.check(ws == [some_w], rule, f["fn"], f"{fl}:Some", f"Some -> {ws}", f"{fl} flush: a dirty row is flushed with {ws} (expected {some_w})", file=f["file"], line=tb.get("line"))
        wn = [w["name"] for w in sql_calls(a_none["body"])] if a_none else []
        if none_w:
            okn = wn == [none_w]
        else:
            bn = unwrap(a_none["body"]) if a_none else {}
            okn = not wn and not (bn.get("e") == "call" and ends(bn.get("ctor") or "", "Result::Ok"))
            okn = okn and not constructs(a_none["body"], "Result::Ok") if a_none else False
        ctx.check(okn, rule, f["fn"], f"{fl}:None", f"None -> {wn or 'never Ok (unreachable/err)'}",
                  f"{fl} flush: a removed row is flushed with {wn or 'Ok(()) / nothing'} (expected {none_w or 'a panic or an error, never a silent Ok'})", file=f["file"], line=tb.get("line"))



def run_k6_keys(ctx):
    """idx_diff compares the old and new key lists of an attribute with a sorted merge walk, which is only a set
    difference when neither list holds a key twice (a surplus copy is classified as removed although the value still
    produces the key: the entry then disappears from that index list). Necessary condition decided here: every
    ValueSetT key generator that removes duplicates with Vec::dedup sorts the same vector first (dedup only removes
    *adjacent* duplicates), with nothing appended in between — unless idx_diff itself dedups both lists after sorting."""
    rule = "K6-keys-are-sets"
    F = ctx.facts
    ent = "kanidmd_lib::entry::Entry::<entry::EntrySealed, entry::EntryCommitted>::idx_diff"
    f = ctx.fn(LIB, ent)
    sorts = calls_in(f["body"], "sort_unstable", "sort", "sort_by", "sort_unstable_by")
    dedups = calls_in(f["body"], "Vec::<T, A>::dedup", "dedup", "dedup_by", "dedup_by_key")
    ctx.check(len(sorts) >= 2, rule, f["fn"], "merge-walk-inputs-sorted", f"{len(sorts)} sort calls before the merge walk",
              "idx_diff no longer sorts both key lists before its merge walk (shape not understood / the walk is no set difference)",
              file=f["file"], line=f["line"])
    lifted = len(dedups) >= 2
    if lifted:
        ctx.notes.append("idx_diff dedups both key lists itself: the per-generator obligation is lifted")
    gens = F.find_fns(LIB, r"^kanidmd_lib::<valueset::.* as valueset::ValueSetT>::generate_idx_(eq|sub|ord)_keys$")
    ctx.floor(rule, "ValueSetT key generators", len(gens), 40)
    n_dedup = 0
    for name in sorted(gens):
        g = ctx.fn(LIB, name)
        ty = re.search(r"(ValueSet\w+) as valueset::ValueSetT>::(\w+)$", name)
        key = f"{ty.group(1)}::{ty.group(2)}" if ty else name
        calls = [c for c in all_calls(g["body"]) if c.get("e") == "mcall"]
        for i, c in enumerate(calls):
            if not is_call_to(c, "dedup", "dedup_by", "dedup_by_key"):
                continue
            if "Vec" not in c.get("recv_ty", "") and "Vec" not in " ".join(callee_any(c)):
                continue
            n_dedup += 1
            recv = unwrap(c["recv"])
            loc = recv["res"].get("local") if recv.get("e") == "path" else None
            ok = lifted
            why = "no earlier sort of the same vector in this function"
            if loc is not None and not lifted:
                state = None
                for d in calls[:i]:
                    r = unwrap(d["recv"])
                    if r.get("e") == "path" and r["res"].get("local") == loc:
                        if is_call_to(d, "sort", "sort_unstable", "sort_by", "sort_unstable_by", "sort_by_key", "sort_unstable_by_key", "sort_by_cached_key"):
                            state = "sorted"
                        elif is_call_to(d, "push", "extend", "append", "insert", "extend_from_slice"):
                            if state == "sorted":
                                why = "elements are appended between the sort and the dedup"
                            state = None
                ok = state == "sorted"
            ctx.check(ok, rule, name, f"sort-before-dedup:{key}",
                      "sorted before dedup",
                      f"{key} calls Vec::dedup on a vector that is not sorted at that point ({why}): dedup only removes adjacent duplicates, so a key can "
                      "be returned twice; idx_diff's merge walk then reports the surplus copy as removed when an attribute changes from a value producing the "
                      "key more often to one producing it less often, and the entry vanishes from that index list although it still matches",
                      file=g["file"], line=c.get("line"))
    ctx.floor(rule, "key generators that dedup", n_dedup, 8)
    # reference instances (confirmed on the pinned tree): these generators build keys from n-grams or from several
    # values that can produce the same key, so they must normalise (sort, then dedup) — dropping the dedup is as bad
    # as dedup-ing unsorted. A generator that disappears (type removed) is not an error.
    MUST_NORMALISE = [
        "ValueSetEmailAddress::generate_idx_sub_keys", "ValueSetPublicBinary::generate_idx_sub_keys",
        "ValueSetCredential::generate_idx_sub_keys", "ValueSetIname::generate_idx_sub_keys",
        "ValueSetIutf8::generate_idx_sub_keys", "ValueSetRestricted::generate_idx_sub_keys",
        "ValueSetOauth2Session::generate_idx_eq_keys", "ValueSetSshKey::generate_idx_sub_keys",
        "ValueSetUtf8::generate_idx_sub_keys",
    ]
    if not lifted:
        by_key = {}
        for name in gens:
            ty = re.search(r"(ValueSet\w+) as valueset::ValueSetT>::(\w+)$", name)
            if ty:
                by_key[f"{ty.group(1)}::{ty.group(2)}"] = name
        for key in MUST_NORMALISE:
            name = by_key.get(key)
            if name is None:
                continue
            g = ctx.fn(LIB, name)
            # the de-duplication must cover the WHOLE result: a dedup (or set collection) inside a per-value closure only
            # normalises each value's keys, and values of one attribute share n-grams
            top_calls = [c for c in all_calls(g["body"], into_closures=False)]
            dd = [c for c in top_calls if is_call_to(c, "dedup", "dedup_by", "dedup_by_key")]
            setlike = any("BTreeSet" in (c.get("ty") or "") or "HashSet" in (c.get("ty") or "") for c in top_calls)
            has = bool(dd) or setlike
            ctx.check(has, rule, name, f"normalises:{key}", "keys are de-duplicated over the whole result",
                      f"{key} does not remove duplicate keys over its whole result (no dedup / set collection outside per-value closures): its "
                      "source yields the same key several times (n-grams of one value, several values sharing n-grams), so idx_diff's merge "
                      "walk mis-classifies the surplus copies and entries vanish from index lists they still belong to",
                      file=g["file"], line=g["line"])
            if dd and not setlike:
                # the returned value is (an element-wise image of) the vector that was de-duplicated
                def root_local(e):
                    e = unwrap(e)
                    while isinstance(e, dict):
                        if e.get("e") == "mcall":
                            e = unwrap(e["recv"])
                        elif e.get("e") == "path" and "local" in e["res"]:
                            return e["res"]["local"]
                        else:
                            return None
                    return None
                b = unwrap(g["body"])
                tail = b["b"].get("tail") if b.get("e") == "blockexpr" else b
                rl = root_local(tail) if tail is not None else None
                dl = {root_local(c["recv"]) for c in dd}
                ctx.check(rl is not None and rl in dl, rule, name, f"returns-deduped:{key}", "the result is the de-duplicated vector",
                          f"{key} returns something other than (an element-wise image of) the vector it de-duplicated: the duplicates removed "
                          "are not the duplicates returned", file=g["file"], line=(tail or g).get("line"))


def run(ctx):
    ctx.explanation = ("Structural clause of index coherence: allow-listed callers for every id2entry/index/name-map writer in the whole workspace (K1), "
                       "every id2entry write site followed by entry_index over the same entries (K6), add/remove halves of the five diff functions are "
                       "mirror images per index type and reach the matching writers (K4), the cache commit flushes every dirty row to its own table before "
                       "db.commit and publishes afterwards. Not decided: key correctness of the diff functions, cache eviction coherence, long histories.")
    run_k1(ctx)
    run_k6_index(ctx)
    run_k4_entry_index(ctx)
    run_k4_diff(ctx)
    run_commit(ctx)
    run_k6_keys(ctx)
    ctx.exhaustive = True
