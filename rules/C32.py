"""C32 Bearer tokens are accepted only for live sessions.

Decided (DESIGN.md C32, E.3):
 K3-uat-valid       every way Account::check_user_auth_token_valid can yield `true` lies under the account validity-window guard and one of
                    { anonymous uuid | session present ∧ (ExpiresAt(s), Some(u)) ∧ s == u | session present ∧ (NeverExpires, None) |
                      no session ∧ ¬(now >= issued_at + grace) }; a RevokedAt session state always yields false.
 K3-apit-valid      ServiceAccount::check_api_token_valid: validity window ∧ ( session record present | no record ∧ inside the grace window ).
 K3-identity        process_uat_to_identity / process_apit_to_identity build an Identity only after the respective check returned true; the
                    checks have no other callers' results forged (callers allow-listed).
 K3-token-parse     validate_and_parse_token_to_identity_token builds Token::UserAuthToken / Token::ApiToken only after the key object's
                    jws_verify succeeded and the expiry (when present) was tested against the current time.
 K1-carriers        verified-token carriers (Token::*, PreValidatedTokenStatus::Valid, LdapSession::UserAuthToken/ApiToken) are built only from
                    a verified parse; process_*_to_identity is called only with such a carrier.
 K5-validity-bounds  every call of Account::check_within_valid_time takes its lower bound from valid_from and its upper bound from expire.
Not decided: the signature scheme and key revocation (C34), clock handling, replication delay semantics of the grace window.
"""
import re
from .lib.hir import *
from .lib.x_g6auth import *
from .lib import pathcond as pc

META = dict(
    technique="static path-condition rules (K3) over type-checked HIR, who-may-construct / who-may-call (K1) over HIR and MIR call facts",
    level_text="Every `true` of the two token-liveness predicates, every Identity construction from a token and every parsed-token construction is "
               "enumerated from the compiler's HIR with its complete guard set and compared with the allowed alternatives; covers all histories "
               "structurally (any session state, any time) where tests script single revocations at fixed times.",
    level_note="Decides the acceptance guards of bearer tokens (validity window, session record / grace window, revoked ⇒ false, signature verified "
               "through the key object, expiry tested) and that identities are built only behind them. Not decided: cryptographic verification and "
               "key revocation themselves (C34), numeric clock behaviour. Trusted: rustc resolution, rule tables.",
)

LIB = "kanidmd_lib"
CORE = "kanidmd_core"
T = "kanidmd_lib::idm::server::IdmServerTransaction::"
UAT_VALID = "kanidmd_lib::idm::account::Account::check_user_auth_token_valid"
APIT_VALID = "kanidmd_lib::idm::serviceaccount::ServiceAccount::check_api_token_valid"
WINDOW = "kanidmd_lib::idm::account::Account::check_within_valid_time"
SS = "kanidmd_lib::value::SessionState::"
TOKEN = "kanidmd_lib::idm::server::Token::"
PARSE = T + "validate_and_parse_token_to_identity_token"
IDENT_NEW = "kanidmd_lib::server::identity::Identity::new"
IDENT = "kanidmd_lib::server::identity::Identity"
CARRIERS = (TOKEN + "UserAuthToken", TOKEN + "ApiToken", "kanidmd_lib::idm::authentication::PreValidatedTokenStatus::Valid",
            "kanidmd_lib::idm::ldap::LdapSession::UserAuthToken", "kanidmd_lib::idm::ldap::LdapSession::ApiToken")


def true_sites(body):
    """Sites where the bool function can yield true: `true` literals in result position, and non-literal result leaves
    (taken as true when they evaluate to true)."""
    leaves = value_leaves(body)
    for n in walk(body, into_closures=False):
        if n.get("e") == "ret" and "x" in n:
            leaves += value_leaves(n["x"])
    out = []
    binds = pc.collect_binds(body)
    ids = {id(x) for x in leaves}
    for node, conds in pc.site_conditions(body, lambda n: id(n) in ids):
        u = unwrap(node)
        if u.get("e") == "lit" and u.get("lk") == "bool":
            if u["v"] == "true":
                out.append(Site(node, conds, binds))
        else:
            out.append(Site(node, conds + [pc.cond(node)], binds))
    return out


def window_ok(s):
    return s.has(True, lambda l: leaf_has(l, "call", WINDOW) and not leaf_has(l, "op", "||") and "lit:true" not in pc.leaf_tokens(l), ("expr",))


def grace_ok(s, inits):
    """¬(now >= issued_at + GRACE) (or now < issued_at + GRACE) known at the site."""
    def pred_ge(l):
        e = unwrap(l[2])
        if e.get("e") != "bin" or e["op"] not in (">=", ">"):
            return False
        tl, tr = deep_tokens(e["l"], inits), deep_tokens(e["r"], inits)
        return has_token(tr, "field", "issued_at") and has_token(tr, "def", "AUTH_TOKEN_GRACE_WINDOW") and has_token(tr, "op", "+") \
            and not has_token(tl, "field", "issued_at")

    def pred_lt(l):
        e = unwrap(l[2])
        if e.get("e") != "bin" or e["op"] not in ("<", "<="):
            return False
        tl, tr = deep_tokens(e["l"], inits), deep_tokens(e["r"], inits)
        return has_token(tr, "field", "issued_at") and has_token(tr, "def", "AUTH_TOKEN_GRACE_WINDOW") and has_token(tr, "op", "+") \
            and not has_token(tl, "field", "issued_at")
    return s.holds(False, pred_ge, ("expr",)) or s.holds(True, pred_lt, ("expr",))


def session_lookup(leaf_scrut, inits, map_call, id_field):
    t = deep_tokens(leaf_scrut, inits)
    return has_token(t, "call", map_call) and has_token(t, "field", id_field)


def classify_uat_true(s, inits):
    """Name of the allowed alternative the site satisfies, or None."""
    # anonymous
    if s.has(True, lambda l: unwrap(l[2]).get("e") == "bin" and unwrap(l[2])["op"] == "==" and leaf_has(l, "def", "UUID_ANONYMOUS")
             and leaf_has(l, "field", "uuid"), ("expr",)):
        return "anonymous"
    present = s.arm(lambda sc, p: all(pat_def(x) == "core::option::Option::Some" for x in top_alternatives(p))
                    and session_lookup(sc, inits, "get_ava_as_session_map", "session_id"))
    absent = s.arm(lambda sc, p: all(pat_def(x) == "core::option::Option::Some" for x in top_alternatives(p))
                   and session_lookup(sc, inits, "get_ava_as_session_map", "session_id"), pol=False)
    if present is not None:
        for _, leaf in s.leaves(True, ("arm", "let")):
            sc, p = (leaf[2][0], leaf[2][1]) if leaf[1] == "arm" else (leaf[2][1], leaf[2][0])
            scu, pu = unwrap(sc), strip_ref(p)
            if scu.get("e") != "tuple" or pu.get("p") != "tuple" or len(scu["xs"]) != 2 or len(pu["pats"]) != 2:
                continue
            idx_state = [i for i, x in enumerate(scu["xs"]) if has_token(tokens(x), "field", "state")]
            idx_exp = [i for i, x in enumerate(scu["xs"]) if has_token(tokens(x), "field", "expiry")]
            if len(idx_state) != 1 or len(idx_exp) != 1 or idx_state == idx_exp:
                continue
            ps, pe = strip_ref(pu["pats"][idx_state[0]]), strip_ref(pu["pats"][idx_exp[0]])
            if pat_def(ps) == SS + "NeverExpires" and pat_def(pe) == "core::option::Option::None":
                return "session-never-expires"
            if pat_def(ps) == SS + "ExpiresAt" and pat_def(pe) == "core::option::Option::Some":
                a, b = set(bound_locals(ps)), set(bound_locals(pe))

                def eq(l, a=a, b=b):
                    e = unwrap(l[2])
                    if e.get("e") != "bin" or e["op"] != "==":
                        return False
                    ll, rl = locals_in(e["l"]), locals_in(e["r"])
                    return (ll & a and rl & b) or (ll & b and rl & a)
                if a and b and s.has(True, eq, ("expr",)):
                    return "session-expiry-match"
        return None
    if absent is not None and grace_ok(s, inits):
        return "grace-window"
    return None


def describe_site(s):
    arms = []
    for _, leaf in s.leaves(True, ("arm",)):
        arms.append(pat_norm(leaf[2][1]))
    return "|".join(sorted(arms))[:80] or "no-arm"


def run(ctx):
    _run_main(ctx)
    token_lookup_hides_deleted(ctx)
    validity_window_bounds_not_swapped(ctx)


def _run_main(ctx):
    F = ctx.facts
    ctx.explanation = ("Every `true` of check_user_auth_token_valid / check_api_token_valid lies under the validity window and an allowed session/grace "
                       "alternative; revoked ⇒ false; identities are built from tokens only after those checks; parsed tokens are built only after "
                       "jws_verify through the key object and the expiry test.")
    uatv = ctx.fn(LIB, UAT_VALID)
    apiv = ctx.fn(LIB, APIT_VALID)
    p_uat = ctx.fn(LIB, T + "process_uat_to_identity")
    p_apit = ctx.fn(LIB, T + "process_apit_to_identity")
    parse = ctx.fn(LIB, PARSE)

    # ---- K3-uat-valid -------------------------------------------------------------------------------
    inits = binding_inits(uatv["body"])
    ts = true_sites(uatv["body"])
    ctx.floor("K3-uat-valid", "`true` outcomes of check_user_auth_token_valid", len(ts), 4)
    seen = {}
    for s in ts:
        alt = classify_uat_true(s, inits)
        w = window_ok(s)
        name = alt or ("unrecognised:" + describe_site(s))
        k = seen.get(name, 0)
        seen[name] = k + 1
        ctx.check(alt is not None and w, "K3-uat-valid", uatv["fn"], f"true:{name}" + (f"#{k}" if k else ""),
                  f"validity window ∧ {alt}",
                  f"check_user_auth_token_valid can return true here without {'the account validity-window guard' if not w else 'any allowed session alternative'} "
                  f"(anonymous | session present with matching expiry | never-expiring session with no token expiry | no session inside the grace window). "
                  f"Guards: {s.render(10)} — a token for a revoked, missing or mismatched session (or an expired account) would be accepted",
                  file=uatv["file"], line=s.line)
        ctx.sample(f"check_user_auth_token_valid true @{s.line}: window={w} alt={alt}")
    ctx.floor("K3-uat-valid", "distinct allowed alternatives seen", len([k for k in seen if not k.startswith("unrecognised")]), 4)
    # RevokedAt => false
    sm = find_matches(uatv["body"], lambda m: has_token(tokens(m["scrut"]), "field", "state") and "SessionState" in m.get("scrut_ty", ""))
    if ctx.check(len(sm) >= 1, "K3-uat-valid", uatv["fn"], "session-state-table", "match over the session state found",
                 "no match over the session's state found (shape not understood)", file=uatv["file"], line=uatv["line"]):
        for m in sm:
            scu = unwrap(m["scrut"])
            hit = []
            for a in m["arms"]:
                may = False
                for alt in top_alternatives(a["pat"]):
                    alt = strip_ref(alt)
                    comp = alt
                    if scu.get("e") == "tuple" and alt.get("p") == "tuple":
                        idx = [i for i, x in enumerate(scu["xs"]) if has_token(tokens(x), "field", "state")]
                        comp = strip_ref(alt["pats"][idx[0]]) if idx else alt
                    if is_catch_all(comp) or any(pat_def(x) == SS + "RevokedAt" for x in top_alternatives(comp)):
                        may = True
                if may:
                    hit.append(a)
                    if "guard" not in a and any(pat_def(strip_ref(x)) == SS + "RevokedAt" or SS + "RevokedAt" in {t[4:] for t in tokens(x) if t.startswith("def:")}
                                                for x in top_alternatives(a["pat"])):
                        break
            bad = [a for a in hit if any(not (unwrap(l).get("e") == "lit" and unwrap(l).get("v") == "false") for l in value_leaves(a["body"]))]
            ctx.check(bool(hit) and not bad, "K3-uat-valid", uatv["fn"], "revoked=>false", "RevokedAt -> false",
                      f"a session in state RevokedAt does not always yield false (arm `{pat_s(bad[0]['pat']) if bad else '?'}`) — revoked sessions would stay usable",
                      file=uatv["file"], line=(bad[0]["body"].get("line") if bad else m.get("line")))

    # ---- K3-apit-valid ------------------------------------------------------------------------------
    inits = binding_inits(apiv["body"])
    ts = true_sites(apiv["body"])
    ctx.floor("K3-apit-valid", "`true` outcomes of check_api_token_valid", len(ts), 2)
    seen = {}

    def record_present(l):
        t = deep_tokens(l[2], inits) if l[1] == "expr" else pc.leaf_tokens(l)
        return has_token(t, "call", "get_ava_as_apitoken_map") and has_token(t, "field", "token_id") and "lit:true" not in t
    for s in ts:
        w = window_ok(s)
        alt = None
        if s.has(True, record_present, ("expr", "let", "arm")):
            alt = "session-record-present"
        elif s.has(False, record_present, ("expr", "let", "arm")) and grace_ok(s, inits):
            alt = "grace-window"
        name = alt or ("unrecognised:" + describe_site(s))
        k = seen.get(name, 0)
        seen[name] = k + 1
        ctx.check(alt is not None and w, "K3-apit-valid", apiv["fn"], f"true:{name}" + (f"#{k}" if k else ""),
                  f"validity window ∧ {alt}",
                  f"check_api_token_valid can return true here without {'the account validity-window guard' if not w else 'its session record being present or the grace window applying'}. "
                  f"Guards: {s.render(10)}", file=apiv["file"], line=s.line)
        ctx.sample(f"check_api_token_valid true @{s.line}: window={w} alt={alt}")

    # ---- K3-identity ----------------------------------------------------------------------------------
    for fn, chk in ((p_uat, UAT_VALID), (p_apit, APIT_VALID)):
        st = sites(fn["body"], lambda n: (n.get("e") == "call" and is_call_to(n, IDENT_NEW)) or (n.get("e") == "struct" and def_of(n) == IDENT))
        ctx.floor("K3-identity", f"Identity constructions in {short(fn['fn'], 1)}", len(st), 1)
        for i, s in enumerate(st):
            ok = s.has(True, lambda l: leaf_has(l, "call", chk) and not leaf_has(l, "op", "||") and "lit:true" not in pc.leaf_tokens(l), ("expr",))
            ctx.check(ok, "K3-identity", fn["fn"], "identity-after-valid" + (f"#{i}" if i else ""), f"under {short(chk, 1)}() == true",
                      f"an Identity is built without {short(chk)} having returned true (guards: {s.render()}) — a token for a dead session becomes an identity",
                      file=fn["file"], line=s.line)
    for tgt, allowed in ((UAT_VALID, {p_uat["fn"]}), (APIT_VALID, {p_apit["fn"]})):
        cs = callers_of(F, [LIB, CORE], tgt)
        ctx.floor("K3-identity", f"callers of {short(tgt, 1)}", len(cs), 1)

    # ---- K3-token-parse -------------------------------------------------------------------------------
    pinits = binding_inits(parse["body"])
    ct_ids = {p["pat"]["local"] for p in parse["params"] if p["ty"].endswith("time::Duration") and p["pat"].get("p") == "bind"}
    st = sites(parse["body"], lambda n: n.get("e") in ("call", "path", "struct") and def_of(n) in (TOKEN + "UserAuthToken", TOKEN + "ApiToken"))
    ctx.floor("K3-token-parse", "parsed-token constructions", len(st), 4)
    cnt = {}

    def expiry_local_leaf(l):
        # `let Some(x) = <..>.expiry`
        return l[1] == "let" and has_token(tokens(l[2][1]), "field", "expiry") and pat_def(strip_ref(l[2][0])) == "core::option::Option::Some"

    def time_cmp(l, exp_ids, ops):
        e = unwrap(l[2])
        if l[1] != "expr" or e.get("e") != "bin" or e["op"] not in ops:
            return False
        both = deep_locals(e, pinits)
        return bool(both & exp_ids) and bool(both & ct_ids)
    for s in st:
        v = def_of(s.node).split("::")[-1]
        k = cnt.get(v, 0)
        cnt[v] = k + 1
        sfx = f"#{k}" if k else ""
        sig = s.has(True, lambda l: leaf_has(l, "call", "server::keys::object::KeyObjectT::jws_verify", "KeyObject::jws_verify"), ("ok",))
        ctx.check(sig, "K3-token-parse", parse["fn"], f"signature-verified:{v}{sfx}", "under ok(key_object.jws_verify(..))",
                  f"Token::{v} is built without the key object's jws_verify having succeeded (guards: {s.render()}) — an unsigned or foreign token would be parsed",
                  file=parse["file"], line=s.line)
        # expiry tested: either `expiry` is None here, or the comparison with the current time is known to have passed
        exp_ok = False
        if s.has(False, expiry_local_leaf, ("let",)):
            exp_ok = True            # no expiry on the token
        for p, leaf in s.leaves(True, ("let",)):
            if expiry_local_leaf(leaf):
                ids = set(bound_locals(leaf[2][0]))
                if s.holds(False, lambda l: time_cmp(l, ids, ("<", "<=", ">=", ">")), ("expr",)):
                    exp_ok = True
        if not exp_ok:
            # `if let Some(e) = x.expiry { if now >= e { return Err } }` contributes a blocked conjunction only
            for conj in s.blocked:
                lets = [leaf for (p, leaf) in conj if p and expiry_local_leaf(leaf)]
                if not lets:
                    continue
                ids = set()
                for leaf in lets:
                    ids |= set(bound_locals(leaf[2][0]))
                cmps = [leaf for (p, leaf) in conj if p and time_cmp(leaf, ids, (">=", ">", "<", "<="))]
                if cmps and len(conj) == len(lets) + len(cmps):
                    exp_ok = True
        ctx.check(exp_ok, "K3-token-parse", parse["fn"], f"expiry-checked:{v}{sfx}", "expiry (when present) compared with the current time",
                  f"Token::{v} is built without the token's expiry having been tested against the current time — an expired token would be accepted",
                  file=parse["file"], line=s.line)

    # ---- K1-carriers ------------------------------------------------------------------------------------
    n_car = 0
    for crate in (LIB, CORE):
        for car in CARRIERS:
            for n in F.fns_mentioning(crate, car.replace("kanidmd_lib::", "", 1) if crate == CORE else car):
                if is_derived_fn(F, crate, n):
                    continue
                d = F.fn(crate, n)
                for j, s in enumerate(sites(d["body"], lambda x, car=car: x.get("e") in ("call", "path", "struct") and def_of(x) == car)):
                    n_car += 1
                    verified = s.has(True, lambda l: leaf_has(l, "call", PARSE), ("ok",)) \
                        or s.arm(lambda sc, p: has_token(tokens(sc), "call", PARSE, T + "validate_client_auth_info_to_uat")
                                 and all(pat_def(x) == "core::result::Result::Ok" or pat_def(x).startswith(TOKEN) for x in top_alternatives(p))) is not None \
                        or (n == parse["fn"])
                    ctx.check(verified, "K1-carriers", n, f"builds:{short(car)}" + (f"#{j}" if j else ""), "from a verified parse",
                              f"{short(car)} (a carrier the server treats as an already verified token) is built here without "
                              "validate_and_parse_token_to_identity_token having succeeded", file=d["file"], line=s.line)
    ctx.floor("K1-carriers", "verified-token carrier constructions", n_car, 7)
    for tgt in (T + "process_uat_to_identity", T + "process_apit_to_identity"):
        cs = callers_of(F, [LIB, CORE], tgt)
        ctx.floor("K1-carriers", f"callers of {short(tgt, 1)}", len(cs), 2)
        for c in sorted(cs):
            d = F.fn(LIB, c) or F.fn(CORE, c)
            if d is None:
                ctx.violation("K1-carriers", c, f"calls:{short(tgt, 1)}", "caller body not found in the facts (fail closed)")
                continue
            for i, s in enumerate(sites(d["body"], call_sink(tgt))):
                ok = s.has(True, lambda l: leaf_has(l, "call", PARSE), ("ok",)) or \
                    s.arm(lambda sc, p: all(pat_def(x) in CARRIERS for x in top_alternatives(p))) is not None
                ctx.check(ok, "K1-carriers", c, f"calls:{short(tgt, 1)}" + (f"#{i}" if i else ""), "with a verified token",
                          f"{short(tgt, 1)} is called with a token that does not come from a verified parse (no ok(validate_and_parse..) and no verified "
                          f"carrier pattern among the guards: {s.render()})", file=d["file"], line=s.line)


# ---------------------------------------------------------------------------------------------------------------------
# a token must never resolve to a deleted account: every entry lookup on the token -> identity paths hides recycled and
# tombstoned entries (added after seeded change C32: `filter_all!` in the compact API-token lookup accepted the token
# of a service account sitting in the recycle bin)

def token_lookup_hides_deleted(ctx):
    R = "K1-token-lookup-hides-deleted"
    F = ctx.facts
    names = F.find_fns(LIB, r"^kanidmd_lib::idm::server::IdmServerTransaction::[a-z_0-9]+$")
    ctx.floor(R, "token/identity resolution functions (IdmServerTransaction defaults)", len(names), 10)
    n_hidden = 0
    for name in sorted(names):
        f = ctx.fn(LIB, name)
        for c in all_calls(f["body"]):
            cs = callee_any(c)
            raw = [x for x in cs if x.startswith("kanidmd_lib::filter::Filter::") and (x.endswith("::new") or x.endswith("::new_recycled"))]
            rec = [x for x in cs if x.endswith("::into_recycled")]
            if any(x.endswith("::new_ignore_hidden") or x.endswith("::into_ignore_hidden") for x in cs):
                n_hidden += 1
            if raw or rec:
                ctx.violation(R, name, "lookup-includes-recycled-entries",
                              f"{short(name, 1)} builds an entry lookup with {short((raw or rec)[0], 2)}, which also matches recycled and tombstoned entries: a token "
                              "(or certificate / sync credential) of a deleted account resolves to the entry in the recycle bin — which keeps all its session "
                              "attributes — and is accepted until the bin is purged. Use the hidden-ignoring constructor (filter! / new_ignore_hidden).",
                              file=f["file"], line=c.get("line"))
    ctx.floor(R, "hidden-ignoring lookups on these paths", n_hidden, 2)
    if not any(v["rule"] == R for v in ctx.violations):
        ctx.ok(R, "kanidmd_lib::idm::server::IdmServerTransaction", "no-raw-filter", f"{len(names)} functions, {n_hidden} lookups, all hide deleted entries")


# ---------------------------------------------------------------------------------------------------------------------
# Account::check_within_valid_time(now, valid_from, expire) takes two Option<&OffsetDateTime> of the same type: a swapped
# call compiles, and with one bound set (what disabling an account produces) accepts exactly the accounts it must refuse.
# Every call site must feed the lower bound from account_valid_from / .valid_from and the upper from account_expire / .expire.

def validity_window_bounds_not_swapped(ctx):
    from .lib.x_fields import expr_sources
    F = ctx.facts
    CW = "kanidmd_lib::idm::account::Account::check_within_valid_time"
    LOWER = {"attr:AccountValidFrom", "field:valid_from"}
    UPPER = {"attr:AccountExpire", "field:expire"}
    callers = sorted({re.sub(r"::\{closure#\d+\}", "", c) for (c, callee, _r, _l, _e, _s) in F.calls(LIB) if callee == CW})
    n = 0
    for cn in callers:
        fn = F.fn(LIB, cn)
        if fn is None or fn.get("test"):
            continue
        for c in calls_in(fn["body"], "Account::check_within_valid_time"):
            if len(c.get("args", [])) != 3:
                continue
            n += 1
            lo = expr_sources(fn["body"], c["args"][1]) & (LOWER | UPPER)
            hi = expr_sources(fn["body"], c["args"][2]) & (LOWER | UPPER)
            ok = bool(lo) and lo <= LOWER and bool(hi) and hi <= UPPER
            ctx.check(ok, "K5-validity-bounds", fn["fn"], "check_within_valid_time(valid_from, expire)",
                      f"lower <- {sorted(lo)}, upper <- {sorted(hi)}",
                      f"check_within_valid_time is called with lower bound from {sorted(lo) or 'nothing recognised'} and upper bound from {sorted(hi) or 'nothing recognised'}: "
                      "the validity window is tested with its bounds swapped or from the wrong attribute, so an expired (disabled) or not-yet-valid account passes",
                      file=fn["file"], line=c.get("line"))
    ctx.floor("K5-validity-bounds", "check_within_valid_time call sites", n, 4)
