"""C25 Default roles cannot act on high-privilege accounts — decided by evaluating the built-in access-control and group tables
of the target domain level (K8, exhaustive over all built-in ACPs).

The built-in `BuiltinAcp` / `BuiltinGroup` / `BuiltinAccount` statics of the target level's data module are evaluated from their HIR
initialisers by a constructor-only interpreter (struct literals with `..Default::default()`, `vec![]`, `clone()` of another static,
`to_string()` of an enum constant / UUID constant, the `match_class_filter!` expansion). Then, with
    HP*   = the membership closure of idm_high_privilege (members ∪ member_create_once, transitively, over the built-in groups),
for every ACP that grants a write (modify / create / delete) touching a credential-, session-, account- or membership-bearing attribute
and that can be received by someone outside HP* (a receiver group not in HP*), the target filter is evaluated in Kleene logic with
    memberof == UUID_IDM_HIGH_PRIVILEGE := true      (the target is a high-privilege account / group)
    SelfUuid                            := false     (the actor is not in HP*, the target is, so target ≠ actor)
    every other atom                    := unknown
and must evaluate to *false* (cannot match such a target). Entry-manager receivers are covered by the property's premise (no
high-privilege entry is delegated to a non-high-privilege manager); the rule checks that premise on the built-in data itself: every
built-in group / account inside HP* is managed (entry_managed_by) from inside HP*.
Fails closed: a table the interpreter cannot evaluate, an unknown filter constructor, a missing idm_high_privilege group or fewer
tables than on the pinned tree are violations.
Not decided: access controls added or changed at run time, dynamic-group membership, the server's evaluation of receivers/targets
(the model above is the trusted base), search (read) grants.
"""
from .lib.hir import short
from .lib.x_g5 import StaticEval, Unevaluable, V, field, target_data_module

META = dict(
    technique="evaluation of the built-in ACP / group tables from their type-checked HIR initialisers + three-valued evaluation of every write-granting ACP's target filter against a high-privilege target",
    level_text="Exhaustive over every built-in access-control profile of the target domain level and every sensitive attribute it grants: each write grant "
               "that somebody outside the membership closure of idm_high_privilege can receive has a target filter that provably excludes members of "
               "idm_high_privilege, and every high-privilege built-in entry is managed from inside that closure. The tests only check a few named role/target pairs.",
    level_note="Decides the property for the shipped tables under the stated model of receiver/target semantics (trusted base: receiver = any listed group, "
               "target = filter match, memberof is the transitive closure maintained by the MemberOf plugin). Not decided: run-time changes to ACPs or groups, "
               "dynamic groups, the access-control engine itself (C24), read grants.",
)
LEVEL = "other"

LIB = "kanidmd_lib"
UUIDS = "kanidmd_lib::constants::uuids::"
HP = UUIDS + "UUID_IDM_HIGH_PRIVILEGE"
ATTR = "kanidm_proto::attribute::Attribute::"
ECLS = "kanidmd_lib::constants::entries::EntryClass::"
PF = "kanidm_proto::internal::raw::Filter::"

# credential-, session-, account- and membership/delegation-bearing attributes (Attribute variant names)
SENSITIVE = {
    # credentials
    "PrimaryCredential", "PassKeys", "AttestedPasskeys", "UnixPassword", "RadiusSecret", "SshPublicKey", "ApplicationPassword",
    "PasswordImport", "TotpImport", "UnixPasswordImport", "CredentialUpdateIntentToken", "IpaNtHash", "IpaSshPubKey", "Certificate",
    "OAuth2AccountCredentialUuid", "OAuth2AccountProvider", "OAuth2AccountUniqueUserId", "OAuth2AccountUniqueUserSub", "UserPassword",
    # sessions
    "UserAuthTokenSession", "ApiTokenSession", "OAuth2Session", "SyncTokenSession", "OAuth2ConsentScopeMap",
    # account details
    "AccountExpire", "AccountValidFrom", "AccountSoftlockExpire", "Name", "Spn", "DisplayName", "LegalName", "Mail", "Uuid", "Class",
    "GidNumber", "LoginShell", "HomeDirectory", "NameHistory", "PasswordChangedTime", "CredentialTypeMinimum", "AllowPrimaryCredFallback",
    # membership / delegation
    "Member", "DynMember", "MemberOf", "DirectMemberOf", "MemberCreateOnce", "EntryManagedBy", "DynGroupFilter",
}
WRITE_CLASSES = {"AccessControlModify", "AccessControlCreate", "AccessControlDelete"}


def const_name(v, what):
    if v.kind != "const":
        raise Unevaluable(f"{what} is not a constant ({v!r})")
    return v.name


def variant_names(v, prefix, what):
    if v is None:
        return set()
    if v.kind != "list":
        raise Unevaluable(f"{what} is not a list")
    out = set()
    for x in v.args:
        if x.kind != "variant" or not x.name.startswith(prefix):
            raise Unevaluable(f"{what} contains {x!r}")
        out.add(x.name[len(prefix):])
    return out


def is_hp_atom(attr, val):
    return (attr.kind == "str" and attr.args[0].kind == "variant" and attr.args[0].name == ATTR + "MemberOf"
            and val.kind == "str" and val.args[0].kind == "const" and val.args[0].name == HP)


def kleene(f):
    """Kleene value of a ProtoFilter against a target that is a member of idm_high_privilege and is not the actor."""
    if f.kind != "variant" or not f.name.startswith(PF):
        raise Unevaluable(f"target filter node {f!r} is not a ProtoFilter constructor")
    nm = f.name[len(PF):]
    if nm == "SelfUuid":
        return False
    if nm == "Eq":
        return True if is_hp_atom(f.args[0], f.args[1]) else None
    if nm in ("Cnt", "Pres"):
        return None
    if nm in ("And", "Or"):
        if len(f.args) != 1 or f.args[0].kind != "list":
            raise Unevaluable(f"{nm} without a list")
        vals = [kleene(x) for x in f.args[0].args]
        if nm == "And":
            if any(v is False for v in vals):
                return False
            return True if all(v is True for v in vals) else None
        if any(v is True for v in vals):
            return True
        return False if all(v is False for v in vals) else None
    if nm == "AndNot":
        v = kleene(f.args[0])
        return None if v is None else (not v)
    raise Unevaluable(f"unknown ProtoFilter constructor {nm}")


def run(ctx):
    F = ctx.facts
    ctx.explanation = ("Built-in ACP and group tables of the target level evaluated from their initialisers; every write grant on a sensitive attribute "
                       "receivable outside the closure of idm_high_privilege has a target filter that is false for members of idm_high_privilege.")
    try:
        MOD, MIGR, tgt = target_data_module(F)
    except Unevaluable as ex:
        ctx.violation("K8-tables", "-", "target-data-module", f"cannot determine the data module of the target domain level: {ex} (fail closed)")
        return
    se = StaticEval(F, LIB)
    groups, acps, accounts = {}, {}, {}
    for i in F.items(LIB):
        if i["item"] != "static" or not i["name"].startswith(MOD + "::"):
            continue
        ty = i.get("ty", "")
        kind = "group" if ty.endswith("groups::BuiltinGroup>") else "acp" if ty.endswith("access::BuiltinAcp>") else "account" if ty.endswith("types::BuiltinAccount") else None
        if kind is None:
            continue
        nm = i["name"][len(MOD) + 2:]
        try:
            v = se.static(i["name"])
            if v.kind != "struct":
                raise Unevaluable("initialiser is not a struct literal")
            {"group": groups, "acp": acps, "account": accounts}[kind][nm] = (v, i)
            ctx.ok("K8-tables", i["name"], "evaluable", "table evaluated")
            ctx.analysed_fns.add(i["name"])
        except Unevaluable as ex:
            ctx.violation("K8-tables", i["name"], "evaluable", f"cannot evaluate the initialiser of {nm}: {ex} — the property cannot be decided for this table (fail closed)",
                          file=i.get("file"), line=i.get("line"))
    ctx.floor("K8-tables", f"built-in ACP tables in {short(MOD, 1)}", len(acps), 49)
    ctx.floor("K8-tables", f"built-in group tables in {short(MOD, 1)}", len(groups), 33)
    for d in sorted(se.defaults_used):
        impl = F.item(LIB, "impl", d.rsplit("::", 1)[0])
        ctx.check(impl is not None and impl.get("derived") is True, "K8-tables", d, "default-is-derived", "omitted fields default to empty (derived Default)",
                  f"{d} is not a #[derive(Default)] impl: omitted table fields may not be empty")
    if ctx.violations:
        return

    # ---- groups and the closure --------------------------------------------------------------------------
    G = {}
    try:
        for nm, (g, i) in groups.items():
            u = const_name(field(g, "uuid"), f"{nm}.uuid")
            mem = [const_name(x, f"{nm}.members[]") for x in field(g, "members", V("list")).args]
            mem += [const_name(x, f"{nm}.member_create_once[]") for x in field(g, "member_create_once", V("list")).args]
            emb = field(g, "entry_managed_by", V("none"))
            if u in G:
                raise Unevaluable(f"two built-in groups share {short(u, 1)}")
            G[u] = dict(name=nm, members=mem, emb=None if emb.kind == "none" else const_name(emb, f"{nm}.entry_managed_by"), item=i)
        A = {}
        for nm, (a, i) in accounts.items():
            emb = field(a, "entry_managed_by", V("none"))
            A[const_name(field(a, "uuid"), f"{nm}.uuid")] = dict(name=nm, emb=None if emb.kind == "none" else const_name(emb, f"{nm}.entry_managed_by"), item=i)
    except Unevaluable as ex:
        ctx.violation("K8-tables", MOD, "group-fields", f"built-in group/account table fields not understood: {ex} (fail closed)")
        return
    if not ctx.check(HP in G, "K8-closure", MOD, "has:idm_high_privilege", "idm_high_privilege group found",
                     f"no built-in group with uuid UUID_IDM_HIGH_PRIVILEGE in {short(MOD, 1)}: the high-privilege boundary is undefined"):
        return
    clo, todo = set(), [HP]
    while todo:
        x = todo.pop()
        if x in clo:
            continue
        clo.add(x)
        todo.extend(G.get(x, {}).get("members", []))
    ctx.floor("K8-closure", "members (transitive) of idm_high_privilege", len(clo), 20)
    ctx.sample(f"HP* = {sorted(short(c, 1) for c in clo)}")
    ctx.check(HP in G[HP]["members"], "K8-closure", MOD + "::" + G[HP]["name"], "hp-contains-itself", "idm_high_privilege is a member of itself",
              "idm_high_privilege no longer lists itself as a member: the group entry itself is not `memberof` high-privilege, so target filters do not protect its own membership",
              file=G[HP]["item"].get("file"), line=G[HP]["item"].get("line"))
    # premise on the built-in data: HP entries are managed from inside HP*
    for u, g in sorted(list(G.items()) + list(A.items())):
        if u in clo and g["emb"] is not None:
            ctx.check(g["emb"] in clo, "K8-premise", MOD + "::" + g["name"], "managed-from-HP*", f"{g['name']} managed by {short(g['emb'], 1)} ∈ HP*",
                      f"high-privilege built-in {g['name']} is entry_managed_by {short(g['emb'], 1)}, which is outside the closure of idm_high_privilege: "
                      "its members could change this entry through the entry-manager access controls", file=g["item"].get("file"), line=g["item"].get("line"))

    # ---- ACPs ---------------------------------------------------------------------------------------------------
    n_write = n_checked = 0
    for nm, (a, i) in sorted(acps.items()):
        try:
            classes = variant_names(field(a, "classes"), ECLS, f"{nm}.classes")
            rec = field(a, "receiver")
            tgtv = field(a, "target")
            grants = {}
            for fld in ("modify_present_attrs", "modify_removed_attrs", "create_attrs"):
                s = variant_names(field(a, fld, None), ATTR, f"{nm}.{fld}")
                if s:
                    grants[fld] = s
            cls_changes = set()
            for fld in ("modify_classes", "modify_present_classes", "modify_remove_classes", "create_classes"):
                cls_changes |= variant_names(field(a, fld, None), ECLS, f"{nm}.{fld}")
            if rec.kind != "variant" or not rec.name.startswith(MOD + "::access::BuiltinAcpReceiver::"):
                raise Unevaluable(f"receiver {rec!r}")
            rk = rec.name.rsplit("::", 1)[1]
            rgroups = [const_name(x, f"{nm}.receiver[]") for x in rec.args[0].args] if rk == "Group" else []
            if tgtv.kind != "variant" or not tgtv.name.startswith(MOD + "::access::BuiltinAcpTarget::"):
                raise Unevaluable(f"target {tgtv!r}")
            tk = tgtv.name.rsplit("::", 1)[1]
            is_write = bool(classes & WRITE_CLASSES) or bool(grants) or bool(cls_changes)
            if not is_write:
                continue
            n_write += 1
            touched = set().union(*grants.values()) if grants else set()
            if cls_changes:
                touched.add("Class")
            sens = touched & SENSITIVE
            if "AccessControlDelete" in classes:
                sens = sens | {"<delete>"}
            if rk == "None" or tk == "None":
                raise Unevaluable("receiver/target None")
            if not sens:
                ctx.ok("K8-hp", i["name"], "no-sensitive-attribute", f"grants only {sorted(touched)}")
                continue
            if rk == "EntryManager":
                ctx.ok("K8-hp", i["name"], "entry-manager-receiver", "covered by the premise (K8-premise checks the built-in entries)")
                continue
            outside = sorted(short(r, 1) for r in rgroups if r not in clo)
            if not outside:
                ctx.ok("K8-hp", i["name"], "receivers-inside-HP*", f"receivers {[short(r, 1) for r in rgroups]} ⊆ HP*")
                continue
            n_checked += 1
            val = kleene(tgtv.args[0])
            ctx.check(val is False, "K8-hp", i["name"], "target-excludes-HP",
                      f"receivable by {outside}; target is false for members of idm_high_privilege",
                      f"built-in ACP {nm} grants {sorted(sens)[:8]} to {outside} (outside the closure of idm_high_privilege) and its target filter "
                      f"{'matches' if val else 'may match'} members of idm_high_privilege ({tgtv.args[0]!r:.200}): a non-high-privilege user can act on a high-privilege account or group",
                      file=i.get("file"), line=i.get("line"))
            ctx.sample(f"{nm}: receivers {outside} ∉ HP*, grants {sorted(sens)[:5]}, target ⇒ {val}")
        except Unevaluable as ex:
            ctx.violation("K8-hp", i["name"], "evaluable", f"ACP {nm}: {ex} (fail closed)", file=i.get("file"), line=i.get("line"))
    ctx.floor("K8-hp", "write-granting built-in ACPs", n_write, 30)
    ctx.floor("K8-hp", "write grants receivable outside HP* (target filters evaluated)", n_checked, 1)
    ctx.notes.append(f"target level {tgt}, data module {MOD}; {len(acps)} ACPs, {len(groups)} groups, {len(accounts)} accounts evaluated; |HP*| = {len(clo)}")
    ctx.exhaustive = True
