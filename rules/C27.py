"""C27 Authentication needs every factor, and denial is final.

Decided (DESIGN.md C27, E.3), all on type-checked HIR / call facts of kanidmd_lib (+ kanidmd_core for the global scans):
 K4-session-state   AuthSession::validate_creds rejects Init/Success/Denied, start_session rejects Success/Denied
                    (the arm returns Err, calls neither the handler nor issue_uat, builds no new session state).
 K1-state-writers   AuthSession.state is written only in start_session / validate_creds / end_session (which writes Denied only);
                    AuthSession{..} is built only in new / new_reauth.
 K1-issue-uat       issue_uat is called only from validate_creds, under arm InProgress ∧ arm CredState::Success of handler.validate().
 K3-auth-success    AuthState::Success and AuthSessionState::Success are constructed only there, after issue_uat succeeded.
 K3-cred-success    every construction of CredState::Success (global scan) lies under its verifier's success; when the verified
                    password lives in a two-factor state struct (one with `mfa_state`) or the AuthType is a Password+X type, also
                    under (mfa_state = Success, pw_state = Init).
 K3-mfa-writer      `mfa_state = Success` is assigned only under the second factor's own verifier success with mfa_state = Init;
                    two-factor state structs are always built with mfa_state = pw_state = Init.
 K4-dispatch        CredHandler::validate routes validate_password only from the Password handler, validate_anonymous only from the
                    Anonymous handler; functions holding a Success site are called only from the dispatcher(s).
 K4-handler-select  CredHandler::Password is built only in build_from_password_only, there exactly for CredentialType::Password /
                    GeneratedPassword; CredHandler::Anonymous only under account.is_anonymous().
 K3-validity        AuthSession::new / new_reauth build a non-denied session state only under is_within_valid_time().
 K1-denied-producers  AuthState::Denied is constructed only by the session state functions (and reauth_init before a session exists).
Not decided: correctness of the verifiers themselves (Password::verify, TOTP, webauthn), the badlist test at login.
"""
import re
from .lib.hir import *
from .lib.x_g6auth import *
from .lib import pathcond as pc

META = dict(
    technique="static path-condition and decision-table rules over type-checked HIR (K1/K3/K4)",
    level_text="For every source site that can yield an authentication success (CredState::Success, AuthState::Success, the session "
               "Success state, issue_uat) the enclosing guards are extracted from the compiler's HIR and compared with the required "
               "factor guards; the session state table, its writers, handler dispatch and handler selection are enumerated completely. "
               "This covers all step sequences structurally (any order, any repetition) where tests drive a few fixed sequences.",
    level_note="Decides: every success site is dominated by its verifier's success and, for two-factor handlers, by (second factor verified, "
               "password not yet tried); finished/denied sessions reject further steps; only the three state functions write the session "
               "state; password-only is offered only for Password/GeneratedPassword credentials; out-of-window accounts never get a live "
               "session state. Not decided: the verifiers' own correctness (hash comparison, TOTP arithmetic, webauthn), badlist at login. "
               "Trusted: rustc name resolution/type check, the rule tables.",
)

LIB = "kanidmd_lib"
CORE = "kanidmd_core"
AS = "kanidmd_lib::idm::authsession::"
ASS = AS + "AuthSessionState"
CS = AS + "CredState"
CVS = AS + "CredVerifyState"
CH = AS + "CredHandler"
AUTHSTATE = "kanidmd_lib::idm::authentication::AuthState"
CREDTYPE = "kanidmd_lib::credential::CredentialType"
PWVERIFY = "kanidm_lib_crypto::Password::verify"

SECOND_FACTOR_TYPES = ("PasswordTotp", "PasswordBackupCode", "PasswordSecurityKey")


def calls_nonexp(e, *suffixes):
    return noexp(calls_in(e, *suffixes))


# --------------------------------------------------------------------------------------------------
def rejects(arm):
    """(ok, why): the arm refuses the step: Err result, no handler / token call, no new session state, no AuthState."""
    b = arm["body"]
    if calls_nonexp(b, "CredHandler::validate", "AuthSession::issue_uat", "CredHandler::next_auth_state"):
        return False, "calls the credential handler / issue_uat"
    if noexp(constructs_any(b, ASS + "::Init", ASS + "::InProgress", ASS + "::Success", ASS + "::Denied")):
        return False, "builds a new session state"
    if noexp([n for n in walk(b) if "e" in n and def_of(n).startswith(AUTHSTATE + "::")]):
        return False, "builds an AuthState response"
    if noexp(constructs_any(b, "core::result::Result::Ok")):
        return False, "yields Ok"
    if not noexp(constructs_any(b, "core::result::Result::Err")):
        return False, "does not yield Err"
    return True, "Err, no handler call, no state change"


def state_field_component(scrut, pat, field):
    """If (scrut, pat) tests `<x>.field` (directly or as a component of a tuple scrutinee), return the pattern component."""
    s = unwrap(scrut)
    p = strip_ref(pat)
    if s.get("e") == "tuple" and p.get("p") == "tuple" and len(s["xs"]) == len(p["pats"]):
        for x, q in zip(s["xs"], p["pats"]):
            if has_token(tokens(x), "field", field) and len([t for t in tokens(x) if t.startswith("field:")]) >= 1:
                fx = unwrap(x)
                if fx.get("e") == "field" and fx.get("f") == field:
                    return q
        return None
    if s.get("e") == "field" and s.get("f") == field:
        return p
    return None


def factor_state_is(site, field, variant):
    """An implied literal says `<x>.field` is CredVerifyState::<variant>."""
    want = CVS + "::" + variant

    def arm_pred(scrut, pat):
        q = state_field_component(scrut, pat, field)
        if q is None:
            return False
        alts = top_alternatives(q)
        return bool(alts) and all(pat_def(a) == want for a in alts)
    if site.arm(arm_pred):
        return True

    def eq_pred(leaf):
        e = unwrap(leaf[2])
        if e.get("e") != "bin" or e.get("op") != "==":
            return False
        t = tokens(e)
        return has_token(t, "field", field) and has_token(t, "def", want) and len([x for x in t if x.startswith("def:" + CVS)]) == 1
    return site.has(True, eq_pred, ("expr",))


def verify_true_leaf(leaf):
    """expr leaf `<pw>.verify(..)` taken as true: Password::verify(..).unwrap_or(false) / an `ok`-unwrapped bool."""
    t = pc.leaf_tokens(leaf)
    if not has_token(t, "call", PWVERIFY):
        return False
    if "lit:true" in t:            # unwrap_or(true) would turn a crypto error into success
        return False
    if has_token(t, "op", "==", "!=", "||"):
        return False
    return True


def verify_receiver_structs(site):
    """ADT types whose field is the receiver of the Password::verify that guards the site."""
    out = set()
    for _, leaf in site.leaves(True, ("expr",)):
        if not verify_true_leaf(leaf):
            continue
        for n in walk(leaf[2]):
            if n.get("e") == "mcall" and is_call_to(n, PWVERIFY):
                r = unwrap(n["recv"])
                if r.get("e") == "field":
                    out.add(r.get("xty", ""))
    return out


GENERIC_VERIFIER = re.compile(r"^(verify\w*|finish_\w*authentication)$")


def generic_verifier(site):
    def callee_name(leaf):
        for t in pc.leaf_tokens(leaf):
            if t.startswith("call:") and GENERIC_VERIFIER.match(t.rsplit("::", 1)[-1]):
                return t[5:]
        return None
    for _, leaf in site.leaves(True, ("expr",)):
        t = pc.leaf_tokens(leaf)
        if callee_name(leaf) and "lit:true" not in t and not has_token(t, "op", "||", "!=", "=="):
            return short(callee_name(leaf))
    for _, leaf in site.leaves(True, ("arm", "let")):
        pat = leaf[2][1] if leaf[1] == "arm" else leaf[2][0]
        scr = leaf[2][0] if leaf[1] == "arm" else leaf[2][1]
        nm = None
        for t in tokens(scr):
            if t.startswith("call:") and GENERIC_VERIFIER.match(t.rsplit("::", 1)[-1]):
                nm = t[5:]
        if nm and all(pat_def(x) in ("core::result::Result::Ok", "core::option::Option::Some") for x in top_alternatives(pat)):
            return short(nm)
    return None


def auth_type_of(node):
    if node.get("e") == "struct":
        for f in node.get("fields", []):
            if f["f"] == "auth_type":
                d = def_of(unwrap(f["x"]))
                if d:
                    return d.split("::")[-1]
    return "?"


def struct_has_field(F, ty, field):
    for it in F.items(LIB):
        if it["item"] == "struct" and (it["name"] == ty or it["name"].endswith("::" + ty) or ("kanidmd_lib::" + ty) == it["name"]):
            for v in it.get("variants", []):
                if any(f["f"] == field for f in v.get("fields", [])):
                    return True
    return False


# --------------------------------------------------------------------------------------------------
def run(ctx):
    _run_main(ctx)
    denial_only_from_the_session(ctx)


def _run_main(ctx):
    F = ctx.facts
    ctx.explanation = ("Every site that can yield an authentication success is dominated by its verifier's success (two-factor handlers: "
                       "second factor verified and password not yet tried); finished sessions reject steps; state writers, issue_uat callers, "
                       "handler dispatch and selection are allow-listed. Verifier internals are not decided.")
    vc = ctx.fn(LIB, AS + "AuthSession::validate_creds")
    ss = ctx.fn(LIB, AS + "AuthSession::start_session")
    es = ctx.fn(LIB, AS + "AuthSession::end_session")
    new = ctx.fn(LIB, AS + "AuthSession::new")
    new_reauth = ctx.fn(LIB, AS + "AuthSession::new_reauth")
    dispatch = ctx.fn(LIB, CH + "::validate")
    pwonly = ctx.fn(LIB, CH + "::build_from_password_only")

    state_enum = F.item(LIB, "enum", ASS)
    variants = [v["v"] for v in state_enum["variants"]] if state_enum else []
    ctx.floor("K4-session-state", "AuthSessionState variants", len(variants), 4)

    # ---- K4-session-state ---------------------------------------------------------------------
    for fn, required in ((vc, ("Init", "Success", "Denied")), (ss, ("Success", "Denied"))):
        ms = find_matches(fn["body"], lambda m: scrut_is_field(m, "state", "authsession::AuthSession"))
        if not ctx.check(len(ms) >= 1, "K4-session-state", fn["fn"], "table-found", "match over self.state found",
                         "no `match` over AuthSession.state found: the step-acceptance table cannot be extracted (fail closed)",
                         file=fn["file"], line=fn["line"]):
            continue
        for m in ms:
            for v in required:
                arms = arms_for_variant(m, ASS + "::" + v)
                if not arms:
                    ctx.violation("K4-session-state", fn["fn"], f"reject:{v}", f"no arm handles AuthSessionState::{v}",
                                  file=fn["file"], line=m.get("line"))
                    continue
                bad = [(a, rejects(a)[1]) for a in arms if not rejects(a)[0]]
                ctx.check(not bad, "K4-session-state", fn["fn"], f"reject:{v}",
                          f"state {v} -> Err (no handler call, no state change)",
                          f"a session in state {v} must refuse every further step, but the arm `{pat_s(bad[0][0]['pat']) if bad else ''}` "
                          f"{bad[0][1] if bad else ''} — a finished or denied session could be continued",
                          file=fn["file"], line=(bad[0][0]["body"].get("line") if bad else m.get("line")))
            ctx.sample(f"{short(fn['fn'])}: " + "; ".join(f"{pat_s(a['pat'])[:60]} -> {'reject' if rejects(a)[0] else 'step'}" for a in m["arms"]))

    # ---- K1-state-writers ---------------------------------------------------------------------
    allowed_writers = {vc["fn"], ss["fn"], es["fn"]}
    writers = {}
    builders = {}
    for n in F.fns_mentioning(LIB, "AuthSession"):
        if is_derived_fn(F, LIB, n):
            continue
        d = F.fn(LIB, n)
        w = field_writes(d["body"], "state", "authsession::AuthSession")
        if w:
            writers[n] = w
        b = [x for x in walk(d["body"]) if x.get("e") == "struct" and def_of(x) == AS + "AuthSession"]
        if b:
            builders[n] = b
    ctx.floor("K1-state-writers", "functions writing AuthSession.state", len(writers), 3)
    for n, w in sorted(writers.items()):
        d = F.fn(LIB, n)
        ctx.check(n in allowed_writers, "K1-state-writers", n, "writes-session-state",
                  f"allowed writer ({', '.join(k for k, _ in w)})",
                  f"AuthSession.state is written here ({', '.join(k for k, _ in w)}) but only start_session, validate_creds and end_session may "
                  "move the session state — another writer can revive a denied or finished session",
                  file=d["file"], line=w[0][1].get("line"))
    # end_session only ever denies
    es_states = sorted({def_of(x).split("::")[-1] for x in walk(es["body"]) if "e" in x and def_of(x).startswith(ASS + "::")})
    ctx.check(es_states == ["Denied"], "K1-state-writers", es["fn"], "end-session-denies",
              "end_session builds only AuthSessionState::Denied",
              f"end_session builds {es_states}; it must only move the session to Denied", file=es["file"], line=es["line"])
    ctx.floor("K1-state-writers", "functions building AuthSession{..}", len(builders), 2)
    for n, b in sorted(builders.items()):
        d = F.fn(LIB, n)
        ctx.check(n in (new["fn"], new_reauth["fn"]), "K1-state-writers", n, "builds-auth-session",
                  "allowed constructor", "AuthSession{..} is built outside AuthSession::new / new_reauth: the validity-window and handler "
                  "selection rules are checked only there", file=d["file"], line=b[0].get("line"))

    # ---- K1-issue-uat ---------------------------------------------------------------------------
    callers = callers_of(F, [LIB, CORE], "AuthSession::issue_uat")
    ctx.floor("K1-issue-uat", "callers of issue_uat", len(callers), 1)
    for c in sorted(callers):
        ctx.check(c == vc["fn"], "K1-issue-uat", c, "calls-issue_uat", "validate_creds",
                  "issue_uat (token issue) is called outside AuthSession::validate_creds — a token could be issued without the credential state machine",
                  line=callers[c][0])

    def under_cred_success(site):
        a = site.arm(lambda scrut, pat: has_token(tokens(scrut), "call", "CredHandler::validate")
                     and all(pat_def(x) == CS + "::Success" for x in top_alternatives(pat)))
        b = site.arm(lambda scrut, pat: all(pat_def(x) == ASS + "::InProgress" for x in top_alternatives(pat))
                     and has_token(tokens(scrut), "field", "state"))
        return a is not None and b is not None

    st = sites(vc["body"], call_sink("AuthSession::issue_uat"))
    ctx.floor("K1-issue-uat", "issue_uat call sites in validate_creds", len(st), 1)
    for i, s in enumerate(st):
        ctx.check(under_cred_success(s), "K1-issue-uat", vc["fn"], f"issue_uat-guard#{i}" if i else "issue_uat-guard",
                  "under state=InProgress ∧ handler.validate()=CredState::Success",
                  f"issue_uat is reachable without arm InProgress ∧ arm CredState::Success of handler.validate(); guards found: {s.render()}",
                  file=vc["file"], line=s.line)

    # ---- K3-auth-success ------------------------------------------------------------------------
    n_auth = 0
    for crate in (LIB, CORE):
        for target, label in ((AUTHSTATE + "::Success", "AuthState::Success"), (ASS + "::Success", "AuthSessionState::Success")):
            for n in F.fns_mentioning(crate, target):
                if is_derived_fn(F, crate, n):
                    continue
                d = F.fn(crate, n)
                found = sites(d["body"], lambda x, t=target: ctor_sink(t)(x) and def_of(x) == t)
                for s in found:
                    n_auth += 1
                    if n != vc["fn"]:
                        ctx.violation("K3-auth-success", n, f"constructs:{label}",
                                      f"{label} is constructed outside AuthSession::validate_creds — a success response without credential verification",
                                      file=d["file"], line=s.line)
                        continue
                    okc = under_cred_success(s) and s.has(True, lambda l: leaf_has(l, "call", "AuthSession::issue_uat"), ("ok",))
                    ctx.check(okc, "K3-auth-success", n, f"guard:{label}",
                              "under InProgress ∧ CredState::Success ∧ ok(issue_uat)",
                              f"{label} must only be built after handler.validate() returned CredState::Success and issue_uat succeeded; guards found: {s.render()}",
                              file=d["file"], line=s.line)
    ctx.floor("K3-auth-success", "AuthState::Success + AuthSessionState::Success sites", n_auth, 2)

    # ---- K3-cred-success ------------------------------------------------------------------------
    success_fns = {}
    n_sites = 0
    n_two_factor = 0
    for n in F.fns_mentioning(LIB, "CredState::Success"):
        if is_derived_fn(F, LIB, n):
            continue
        d = F.fn(LIB, n)
        found = sites(d["body"], lambda x: ctor_sink(CS + "::Success")(x) and def_of(x) == CS + "::Success")
        if not found:
            continue
        success_fns[n] = d
        seen = {}
        for s in found:
            n_sites += 1
            at = auth_type_of(s.node)
            k = seen.get(at, 0)
            seen[at] = k + 1
            inst = f"success:{at}" + (f"#{k}" if k else "")
            alts = []
            # password verified
            pw_ok = s.has(True, verify_true_leaf, ("expr",))
            recv_structs = verify_receiver_structs(s)
            two_factor_ctx = at in SECOND_FACTOR_TYPES or any(struct_has_field(F, t, "mfa_state") for t in recv_structs)
            if pw_ok:
                alts.append("password-verified")
            if s.arm(lambda scrut, pat: has_token(tokens(scrut), "call", "Webauthn::finish_passkey_authentication",
                                                  "Webauthn::finish_attested_passkey_authentication")
                     and all(pat_def(x) == "core::result::Result::Ok" for x in top_alternatives(pat))):
                alts.append("passkey-verified")
            if n == CH + "::validate_anonymous" and s.arm(
                    lambda scrut, pat: all(pat_def(x).endswith("AuthCredential::Anonymous") for x in top_alternatives(pat))):
                alts.append("anonymous-credential")
            if (s.holds(True, lambda l: leaf_has(l, "field", "active") and not leaf_has(l, "op", "==", "!="), ("expr",))
                    and s.holds(True, lambda l: unwrap(l[2]).get("e") == "bin" and unwrap(l[2]).get("op") == "=="
                                and leaf_has(l, "field", "user_sub"), ("expr",))):
                alts.append("oauth2-introspection-accepted")
            if not alts:
                # a verifier this table does not know by def-path: accept the success branch of a call named verify*/finish_*authentication
                # (bool taken true, or its Ok/Some arm); the callee is shown so that a reviewer sees which verifier was trusted
                gen = generic_verifier(s)
                if gen:
                    alts.append("verifier:" + gen)
            ok = bool(alts)
            why = ""
            if two_factor_ctx:
                n_two_factor += 1
                mfa_ok = factor_state_is(s, "mfa_state", "Success")
                pw_init = factor_state_is(s, "pw_state", "Init")
                if not (pw_ok and mfa_ok and pw_init):
                    ok = False
                    why = (f"two-factor handler: needs arm (mfa_state=Success, pw_state=Init) ∧ Password::verify true; "
                           f"mfa_state=Success:{mfa_ok} pw_state=Init:{pw_init} verify:{pw_ok}. ")
            ctx.check(ok, "K3-cred-success", n, inst,
                      f"{'+'.join(alts)}{' + (mfa=Success,pw=Init)' if two_factor_ctx else ''}",
                      f"CredState::Success{{{at}}} is reachable without its factor guards. {why}"
                      f"Expected the verifier's success branch (Password::verify true / finish_*_authentication Ok / anonymous credential in "
                      f"validate_anonymous / accepted introspection). Guards found: {s.render()} — a session could succeed without every factor",
                      file=d["file"], line=s.line)
            ctx.sample(f"{short(n, 1)} {at} @{s.line}: {'+'.join(alts)}{' +2FA-arm' if two_factor_ctx else ''}")
    ctx.floor("K3-cred-success", "CredState::Success sites", n_sites, 9)
    ctx.floor("K3-cred-success", "two-factor CredState::Success sites", n_two_factor, 3)

    # ---- K3-mfa-writer --------------------------------------------------------------------------
    n_mfa = 0
    n_init = 0
    for n in F.fns_mentioning(LIB, "mfa_state"):
        if is_derived_fn(F, LIB, n):
            continue
        d = F.fn(LIB, n)

        def is_mfa_success_assign(x):
            if x.get("e") != "assign":
                return False
            l = unwrap(x["l"])
            return l.get("e") == "field" and l.get("f") == "mfa_state" and def_of(unwrap(x["r"])) == CVS + "::Success"
        k = 0
        for s in sites(d["body"], is_mfa_success_assign):
            n_mfa += 1
            second = (s.has(True, lambda l: leaf_has(l, "call", "credential::totp::Totp::verify"), ("let", "expr"))
                      or s.has(True, lambda l: leaf_has(l, "call", "credential::BackupCodes::verify") and "lit:true" not in pc.leaf_tokens(l), ("expr",))
                      or s.arm(lambda scrut, pat: has_token(tokens(scrut), "call", "Webauthn::finish_securitykey_authentication")
                               and all(pat_def(x) == "core::result::Result::Ok" for x in top_alternatives(pat))) is not None)
            fresh = factor_state_is(s, "mfa_state", "Init")
            ctx.check(second and fresh, "K3-mfa-writer", n, "mfa_state=Success" + (f"#{k}" if k else ""),
                      "under the second factor's verifier success with mfa_state=Init",
                      f"`mfa_state = Success` must only be written in the second factor's own success branch (TOTP / backup code / security key "
                      f"verified) of the arm mfa_state=Init; verifier:{bool(second)} mfa_state=Init:{fresh}; guards: {s.render()} — the password step "
                      "would be unlocked without a verified second factor", file=d["file"], line=s.line)
            k += 1
        for x in walk(d["body"]):
            if x.get("e") == "struct":
                for f in x.get("fields", []):
                    if f["f"] in ("mfa_state", "pw_state"):
                        n_init += 1
                        dd = def_of(unwrap(f["x"]))
                        ctx.check(dd == CVS + "::Init", "K3-mfa-writer", n, f"init:{short(def_of(x), 1)}.{f['f']}",
                                  "starts at Init", f"{short(def_of(x), 1)}.{f['f']} is initialised with {dd or ex_s(f['x'])} — a factor must start unverified (Init)",
                                  file=d["file"], line=x.get("line"))
    ctx.floor("K3-mfa-writer", "`mfa_state = Success` assignments", n_mfa, 3)
    ctx.floor("K3-mfa-writer", "two-factor state initialisers", n_init, 6)

    # ---- K4-dispatch ----------------------------------------------------------------------------
    dm = find_matches(dispatch["body"], lambda m: "CredHandler" in m.get("scrut_ty", ""))
    if ctx.check(len(dm) >= 1, "K4-dispatch", dispatch["fn"], "table-found", "dispatch match found",
                 "CredHandler::validate is no longer a match over the handler (shape not understood)", file=dispatch["file"], line=dispatch["line"]):
        restricted = {CH + "::validate_password": CH + "::Password", CH + "::validate_anonymous": CH + "::Anonymous"}
        rows = 0
        for a in dm[0]["arms"]:
            vs = sorted({pat_def(x) for x in top_alternatives(a["pat"])})
            for c in noexp(all_calls(a["body"])):
                cal = callee_of(c)
                if cal in restricted:
                    rows += 1
                    ctx.check(vs == [restricted[cal]], "K4-dispatch", dispatch["fn"], f"route:{short(cal, 1)}",
                              f"{short(cal, 1)} <- {[short(v, 1) for v in vs]}",
                              f"{short(cal, 1)} (single-factor) is dispatched for handler(s) {[short(v, 1) for v in vs]}; it may only serve "
                              f"{short(restricted[cal], 1)} — a multi-factor handler would succeed on one factor", file=dispatch["file"], line=c.get("line"))
        ctx.floor("K4-dispatch", "single-factor routes", rows, 2)
    ok_callers = {dispatch["fn"], AS + "handler_oauth2_client::CredHandlerOAuth2Client::validate"}
    for n in sorted(success_fns):
        cs = callers_of(F, [LIB, CORE], n.replace("kanidmd_lib::", "", 1), n)
        for c in sorted(cs):
            ctx.check(c in ok_callers, "K4-dispatch", c, f"calls:{short(n, 1)}", "dispatcher",
                      f"{short(n)} holds a CredState::Success site and is called from {short(c)}; only the handler dispatchers may call it",
                      line=cs[c][0])
    for tgt, only in ((CH + "::validate", vc["fn"]), (AS + "handler_oauth2_client::CredHandlerOAuth2Client::validate", dispatch["fn"])):
        cs = callers_of(F, [LIB, CORE], tgt)
        ctx.floor("K4-dispatch", f"callers of {short(tgt)}", len(cs), 1)
        for c in sorted(cs):
            ctx.check(c == only, "K4-dispatch", c, f"calls:{short(tgt)}", short(only),
                      f"{short(tgt)} is called from {short(c)}, expected only {short(only)} (the session state machine)", line=cs[c][0])

    # ---- K4-handler-select ----------------------------------------------------------------------
    n_pw = 0
    for n in F.fns_mentioning(LIB, "CredHandler::Password"):
        if is_derived_fn(F, LIB, n):
            continue
        d = F.fn(LIB, n)
        for s in sites(d["body"], lambda x: "e" in x and def_of(x) == CH + "::Password" and x["e"] in ("struct", "call", "path")):
            n_pw += 1
            if n != pwonly["fn"]:
                ctx.violation("K4-handler-select", n, "constructs:CredHandler::Password",
                              "the password-only handler is built outside build_from_password_only — password-only login could be offered for a credential with a second factor",
                              file=d["file"], line=s.line)
                continue
            generated = "?"
            for f in s.node.get("fields", []):
                if f["f"] == "generated":
                    generated = str(unwrap(f["x"]).get("v"))
            allowed = {CREDTYPE + "::Password", CREDTYPE + "::GeneratedPassword"}
            a = s.arm(lambda scrut, pat: has_token(tokens(scrut), "field", "type_")
                      and all(pat_def(x) in allowed for x in top_alternatives(pat)))
            ctx.check(a is not None, "K4-handler-select", n, f"password-only:generated={generated}",
                      "under CredentialType::Password | GeneratedPassword",
                      f"CredHandler::Password is built for a credential type other than Password/GeneratedPassword (guards: {s.render()}) — "
                      "an account with a second factor configured would be offered password-only login", file=d["file"], line=s.line)
    ctx.floor("K4-handler-select", "CredHandler::Password construction sites", n_pw, 2)
    pm = find_matches(pwonly["body"], lambda m: scrut_is_field(m, "type_"))
    if ctx.check(len(pm) >= 1, "K4-handler-select", pwonly["fn"], "table-found", "match over cred.type_",
                 "build_from_password_only is no longer a match over cred.type_", file=pwonly["file"], line=pwonly["line"]):
        for v in ("Password", "GeneratedPassword"):
            arms = arms_for_variant(pm[0], CREDTYPE + "::" + v)
            ok = bool(arms) and all(constructs_any(a["body"], CH + "::Password") for a in arms)
            ctx.check(ok, "K4-handler-select", pwonly["fn"], f"offers:{v}", f"{v} -> password-only handler",
                      f"CredentialType::{v} no longer yields the password-only handler", file=pwonly["file"], line=pm[0].get("line"))
        others = [a for a in pm[0]["arms"]
                  if any(is_catch_all(x) or pat_def(x) not in (CREDTYPE + "::Password", CREDTYPE + "::GeneratedPassword") for x in top_alternatives(a["pat"]))]
        for a in others:
            ctx.check(not [x for x in walk(a["body"]) if "e" in x and def_of(x).startswith(CH + "::")], "K4-handler-select", pwonly["fn"],
                      f"refuses:{pat_norm(a['pat'])[:50]}", "no handler",
                      f"arm `{pat_s(a['pat'])}` of build_from_password_only builds a handler for a non password-only credential type",
                      file=pwonly["file"], line=a["body"].get("line"))
    cs = callers_of(F, [LIB, CORE], CH + "::build_from_password_only")
    for c in sorted(cs):
        ctx.check(c in (new["fn"], new_reauth["fn"]), "K4-handler-select", c, "calls:build_from_password_only", "AuthSession::new/new_reauth",
                  f"build_from_password_only is called from {short(c)}", line=cs[c][0])
    n_anon = 0
    for n in F.fns_mentioning(LIB, "CredHandler::Anonymous"):
        if is_derived_fn(F, LIB, n):
            continue
        d = F.fn(LIB, n)
        for s in sites(d["body"], lambda x: "e" in x and def_of(x) == CH + "::Anonymous" and x["e"] in ("struct", "call", "path")):
            n_anon += 1
            okc = n == new["fn"] and s.has(True, lambda l: leaf_has(l, "call", "Account::is_anonymous"), ("expr",))
            ctx.check(okc, "K4-handler-select", n, "anonymous-handler", "under account.is_anonymous()",
                      f"the anonymous handler (which accepts with no secret) is built without the account.is_anonymous() guard; guards: {s.render()}",
                      file=d["file"], line=s.line)
    ctx.floor("K4-handler-select", "CredHandler::Anonymous construction sites", n_anon, 1)

    # ---- K3-validity ----------------------------------------------------------------------------
    def within(site):
        return site.has(True, lambda l: leaf_has(l, "call", "Account::is_within_valid_time", "Account::check_within_valid_time")
                        and not leaf_has(l, "op", "||"), ("expr",))

    live = (ASS + "::Init", ASS + "::InProgress", ASS + "::Success")
    for fn in (new, new_reauth):
        st = sites(fn["body"], lambda x: "e" in x and x["e"] in ("call", "path", "struct") and def_of(x) in live)
        ctx.floor("K3-validity", f"live session states built in {short(fn['fn'])}", len(st), 1)
        cnt = {}
        for s in st:
            v = def_of(s.node).split("::")[-1]
            k = cnt.get(v, 0)
            cnt[v] = k + 1
            ok = within(s)
            via = "is_within_valid_time()"
            if not ok:
                # one level of indirection through a fn-local carrier enum: `match state { Proceed(h) => InProgress(h) }`
                prefix = fn["fn"] + "::"
                for _, leaf in s.leaves(True, ("arm", "let")):
                    pat = leaf[2][1] if leaf[1] == "arm" else leaf[2][0]
                    defs = {pat_def(x) for x in top_alternatives(pat)}
                    if defs and all(dv.startswith(prefix) for dv in defs):
                        carriers = sites(fn["body"], lambda x, defs=defs: "e" in x and x["e"] in ("call", "path", "struct") and def_of(x) in defs)
                        if carriers and all(within(c) for c in carriers):
                            ok = True
                            via = f"{'/'.join(short(x, 1) for x in sorted(defs))}, built only under is_within_valid_time()"
            ctx.check(ok, "K3-validity", fn["fn"], f"live-state:{v}" + (f"#{k}" if k else ""), f"under {via}",
                      f"AuthSessionState::{v} is built without the account validity-window guard (guards: {s.render()}) — an expired or "
                      "not-yet-valid account could authenticate", file=fn["file"], line=s.line)


# ---------------------------------------------------------------------------------------------------------------------
# "Denial is final" holds because a Denied reply is only ever produced by the session's own state functions, which record
# the denial in the stored session state (K1-state-writers: end_session writes Denied; start_session / validate_creds
# write the state they return). A Denied reply built anywhere else tells the client "denied" while the stored session
# stays in progress and accepts the next step.

DENIED_PRODUCERS = {
    AS + "AuthSession::new": "initial state of a session that is denied at creation (no live state is stored, K3-validity)",
    AS + "AuthSession::new_reauth": "as new",
    AS + "AuthSession::start_session": "session state function",
    AS + "AuthSession::validate_creds": "session state function",
    AS + "AuthSession::end_session": "session state function (writes AuthSessionState::Denied)",
    "kanidmd_lib::idm::reauth::<impl idm::server::IdmServerAuthTransaction<'_>>::reauth_init":
        "softlocked before any session is created: there is no session to finalise",
}


def denial_only_from_the_session(ctx):
    F = ctx.facts
    D = AUTHSTATE + "::Denied"
    seen = set()
    for crate in (LIB, CORE):
        for n in sorted(F.fns_mentioning(crate, "AuthState::Denied")):
            fn = F.fn(crate, n)
            if fn.get("test"):
                continue
            cs = noexp(constructs(fn["body"], D))
            if not cs:
                continue
            base = re.sub(r"::\{closure#\d+\}", "", fn["fn"])
            seen.add(base)
            ctx.check(base in DENIED_PRODUCERS, "K1-denied-producers", fn["fn"], "constructs:AuthState::Denied",
                      f"{short(base)}: {DENIED_PRODUCERS.get(base, '')}",
                      f"{short(base)} builds an AuthState::Denied reply itself instead of going through AuthSession::end_session / the session state "
                      "functions: the client is told the step was denied while the stored session is not finalised and accepts further steps",
                      file=fn["file"], line=cs[0].get("line"))
    ctx.floor("K1-denied-producers", "functions constructing AuthState::Denied", len(seen), 6)
