"""C43 PAM fails closed — K3 path conditions of every PAM_SUCCESS value site + K4 tables of CryptPw.

Decided (DESIGN.md C43), all on type-checked HIR, nothing executes:
 K3-connected   every PAM_SUCCESS value site of core::sm_authenticate_connected is under a match arm / if-let whose
                pattern (every or-alternative) is ClientResponse::PamAuthenticateStepResponse{response: PamAuthResponse::Success}
                over a value derived from DaemonClientBlocking::call_and_wait (so daemon errors and every other reply kind
                cannot reach it);
 K3-fallback    every PAM_SUCCESS site of core::sm_authenticate_fallback is under the *true* branch of CryptPw::check_pw,
                behind the blocked conjunction  let Some(e) = <..epoch_expire_seconds..> ∧ now >= e   (exactly these two
                literals) and under (Some(user), Some(shadow)) of the passwd/shadow look-ups;
 K3-acct        every PAM_SUCCESS site of core::acct_mgmt is under ClientResponse::PamStatus(Some(true)) of call_and_wait, or
                (local account) under Source::Fallback of connect_to_daemon ∧ entries found ∧ not expired;
 K3-dispatch    sm_authenticate calls sm_authenticate_fallback only under Source::Fallback; connect_to_daemon builds
                Source::Fallback only where no daemon client could be created;
 K4-results     every result expression of the three functions is a PamResultCode constant or an `Err(e)` payload of a
                PamResult-returning call (anything else: shape not understood, fail closed);
 K3-err-nonsuccess  every non-constant `Err(x)` of a PamResult in the PAM crate is built under not(PAM_SUCCESS == x);
 K1-success-scan    every other PAM_SUCCESS *value* site (not a comparison operand) in all bodies of the PAM crates is on an
                    allow-list with a reason (session/setcred hooks); a new one anywhere is reported;
 K2-wiring      pam_sm_authenticate / pam_sm_acct_mgmt entry points reach exactly these functions;
 K4-check_pw    CryptPw::check_pw: every non-`false` result is under an arm of a supported variant (Invalid → false);
 K4-from_str    CryptPw::from_str: every non-Invalid result is under  <param>.starts_with("$..$")  (non-empty literal that
                starts with `$`), so `!`, `*`, empty and any unknown prefix become Invalid;
 K1-cryptpw     non-Invalid CryptPw values are constructed only in from_str (and derived Clone).
Not decided: the crypt verifiers themselves (sha_crypt / yescrypt crates), the C PAM library, that the shadow entry is the
one of the requested account (the `find` closure), the daemon side (C44/C45).
"""
from .lib.hir import *
from .lib import pathcond as pc
from .lib.x_sinks import (fn_root, result_leaves, sites_of, pat_alts, pat_forces, entailed, prov_binds, deep_tokens,
                          deep_nodes, local_id, pat_bound_locals, param_locals, binding_of, cmp_operand_ids, leaf_pat,
                          leaf_scrut, loc)

META = dict(
    technique="static path-condition analysis (K3) of every PAM_SUCCESS value site in the PAM crates + decision tables (K4) of CryptPw::{from_str, check_pw}",
    level_text="Every expression in the PAM crates that can yield PAM_SUCCESS is enumerated from the compiler's HIR (global scan) and the exact guard "
               "set dominating it is computed: daemon reply = Success / PamStatus(Some(true)); or, without daemon, shadow entry found, not(now >= expire) "
               "and check_pw() true. CryptPw::from_str/check_pw are extracted as tables: only `$…$`-prefixed hashes become verifiable variants and Invalid never verifies. "
               "This covers all inputs and reply sequences for the clause 'success only under these guards', which the few fixed PAM conversations in the tests cannot.",
    level_note="Decides the guard structure (which conditions dominate each success site, on every path). Not decided: the crypt verifier crates, libpam itself, "
               "that the shadow row belongs to the requested account, and the resolver daemon's own decision (C44/C45). Trusted: rustc HIR facts, the K3 engine, the rule tables.",
)

PAM = "pam_sparkle_common"
UX = "sparkle_unix_common"
ENTRY_CRATES = ["pam_kanidm", "pam_sparkle"]
CORE = "pam_sparkle_common::core::"
RC = "pam_sparkle_common::pam::constants::PamResultCode"
SUCCESS = RC + "::PAM_SUCCESS"

SPEC_STEP_SUCCESS = ("v", "unix_proto::ClientResponse::PamAuthenticateStepResponse",
                     {"response": ("v", "unix_proto::PamAuthResponse::Success", {})})
SPEC_STATUS_TRUE = ("v", "unix_proto::ClientResponse::PamStatus",
                    {"0": ("v", "core::option::Option::Some", {"0": ("lit", "true")})})
SPEC_FALLBACK = ("v", "core::Source::Fallback", {})
SPEC_SOME = ("v", "core::option::Option::Some", {})

# PAM_SUCCESS value sites that are not authentication / authorisation decisions
ALLOW_SUCCESS = {
    CORE + "sm_open_session": "session hook: PAM_SUCCESS after the daemon acknowledged the session (or no daemon); not an authentication decision",
    CORE + "sm_close_session": "session hook: nothing to do; not an authentication decision",
    CORE + "sm_setcred": "credential hook: only lists the environment; not an authentication decision",
}


def success_sites(root):
    """PAM_SUCCESS used as a value (comparison operands are tests, not results)."""
    cmp_ids = cmp_operand_ids(root)
    return [n for n in walk(root) if n.get("e") == "path" and def_of(n) == SUCCESS and id(n) not in cmp_ids]


def pos_pattern_lits(lits):
    return [leaf for (p, leaf) in lits.values() if p and leaf[1] in ("arm", "let")]


def describe(lits, *def_needles):
    """Stable, line-free description of the arms a site sits under (for instance keys)."""
    out = set()
    for leaf in pos_pattern_lits(lits):
        pat = leaf_pat(leaf)
        if any(t.startswith("def:") and d in t for t in tokens(pat) for d in def_needles):
            out.add(" | ".join(sorted(set(pat_alts(pat)))))
    return ";".join(sorted(out)) or "no-matching-arm"


def forced(lits, spec, prov, *call_suffixes):
    """A positive arm/let literal whose pattern forces `spec` and whose scrutinee derives from one of the calls."""
    for leaf in pos_pattern_lits(lits):
        if pat_forces(leaf_pat(leaf), spec):
            if not call_suffixes or has_token(deep_tokens(leaf_scrut(leaf), prov, 4), "call", *call_suffixes):
                return leaf
    return None


def expiry_guard(rec, root, conds, prov):
    """The blocked conjunction  let/arm Some(e) = <..epoch_expire_seconds..>  ∧  now >= e  (exactly two positive literals)."""
    nows = set(param_locals(rec, lambda t: t.endswith("OffsetDateTime")))
    for l, init in prov.items():
        if has_token(tokens(init), "call", "OffsetDateTime::now_utc"):
            nows.add(l)
    found = []
    for conj in pc.blocked(conds):
        if len(conj) != 2 or not all(p for (p, _) in conj):
            continue
        pats = [l for (_, l) in conj if l[1] in ("let", "arm")]
        exprs = [l for (_, l) in conj if l[1] == "expr"]
        if len(pats) != 1 or len(exprs) != 1:
            continue
        pl, el = pats[0], exprs[0]
        if not pat_forces(leaf_pat(pl), SPEC_SOME):
            continue
        if not has_token(deep_tokens(leaf_scrut(pl), prov, 4), "field", "epoch_expire_seconds"):
            continue
        bound = set(pat_bound_locals(leaf_pat(pl)))
        e = unwrap(el[2])
        if e.get("e") != "bin":
            continue
        l, r = local_id(e["l"]), local_id(e["r"])
        if (e["op"] == ">=" and l in nows and r in bound) or (e["op"] == "<=" and l in bound and r in nows):
            found.append(conj)
    return found


def entries_found(lits, prov):
    """Positive literal: the passwd/shadow look-up results are all Some(..) (no wildcard component)."""
    for leaf in pos_pattern_lits(lits):
        alts = set(pat_alts(leaf_pat(leaf)))
        if not alts or not alts <= {"(Option::Some(_),Option::Some(_))", "Option::Some(_)"}:
            continue
        nodes = list(deep_nodes(leaf_scrut(leaf), prov, 4))
        has_find = any(n.get("e") == "mcall" and is_call_to(n, "Iterator::find", "iterator::Iterator::find") for n in nodes)
        on_shadow = any(n.get("e") == "mcall" and "EtcShadow" in n.get("recv_ty", "") for n in nodes)
        if has_find and on_shadow:
            return leaf
    return None


def check_pw_true(lits):
    for (p, leaf) in lits.values():
        if p and leaf[1] == "expr":
            e = unwrap(leaf[2])
            if e.get("e") == "mcall" and is_call_to(e, "unix_passwd::CryptPw::check_pw"):
                return leaf
    return None


def run(ctx):
    _run_main(ctx)
    connection_dropped_after_any_error(ctx)


def _run_main(ctx):
    F = ctx.facts
    ctx.explanation = ("K3: the guard set dominating every PAM_SUCCESS value site of the PAM crates is computed from HIR and compared with the "
                       "allowed alternatives (daemon Success reply; PamStatus(Some(true)); local shadow entry found ∧ not expired ∧ check_pw). "
                       "K4: CryptPw::from_str / check_pw extracted as tables (unsupported, locked, empty → Invalid → false). "
                       "Global scan: any other success site must be allow-listed. Decides the guard structure, not the crypt verifiers.")
    ctx.exhaustive = True      # every success / secret-carrying site of the crates is enumerated, not sampled
    conn = ctx.fn(PAM, CORE + "sm_authenticate_connected")
    fall = ctx.fn(PAM, CORE + "sm_authenticate_fallback")
    acct = ctx.fn(PAM, CORE + "acct_mgmt")
    disp = ctx.fn(PAM, CORE + "sm_authenticate")
    ctd = ctx.fn(PAM, CORE + "RequestOptions::connect_to_daemon")
    n_auth_sites = 0

    # ---- K3-connected ---------------------------------------------------------
    root = fn_root(conn)
    prov = prov_binds(root)
    binds = pc.collect_binds(root)
    sites = sites_of(root, success_sites(root))
    ctx.floor("K3-connected", "PAM_SUCCESS sites in sm_authenticate_connected", len(sites), 1)
    for node, conds in sites:
        n_auth_sites += 1
        lits = entailed(conds, binds)
        leaf = forced(lits, SPEC_STEP_SUCCESS, prov, "DaemonClientBlocking::call_and_wait")
        desc = describe(lits, "unix_proto::ClientResponse", "unix_proto::PamAuthResponse")
        ctx.check(leaf is not None, "K3-connected", conn["fn"], f"success-site:{desc}",
                  "PAM_SUCCESS under arm PamAuthenticateStepResponse{response: Success} of call_and_wait",
                  f"PAM_SUCCESS is returned at a site that is not (only) under the daemon reply PamAuthenticateStepResponse{{response: Success}} "
                  f"of DaemonClientBlocking::call_and_wait; enclosing reply arms: [{desc}]; guards: {pc.render(lits)[:8]} — "
                  "an error, denial or unexpected reply would authenticate the user",
                  **loc(conn, node))
        ctx.sample(f"{conn['file']}:{node.get('line')} sm_authenticate_connected :: {desc}")

    # ---- K3-fallback ----------------------------------------------------------
    root = fn_root(fall)
    prov = prov_binds(root)
    binds = pc.collect_binds(root)
    sites = sites_of(root, success_sites(root))
    ctx.floor("K3-fallback", "PAM_SUCCESS sites in sm_authenticate_fallback", len(sites), 1)
    for node, conds in sites:
        n_auth_sites += 1
        lits = entailed(conds, binds)
        a = check_pw_true(lits) is not None
        b = bool(expiry_guard(fall, root, conds, prov))
        c = entries_found(lits, prov) is not None
        missing = [nm for nm, ok in (("check_pw()==true", a), ("not(now >= expire)", b), ("user∧shadow entry found", c)) if not ok]
        ctx.check(not missing, "K3-fallback", fall["fn"], "success-site:" + ("guarded" if not missing else "missing:" + ",".join(missing)),
                  "PAM_SUCCESS under check_pw() ∧ not(Some(expire) ∧ now >= expire) ∧ (Some(user), Some(shadow))",
                  f"PAM_SUCCESS in the no-daemon path is reachable without: {missing}. guards: {pc.render(lits)[:8]}; blocked: {pc.render_blocked(pc.blocked(conds))[:8]} — "
                  "a wrong password, an expired account or an unknown user would authenticate",
                  **loc(fall, node))
        ctx.sample(f"{fall['file']}:{node.get('line')} sm_authenticate_fallback :: check_pw ∧ ¬(now>=expire) ∧ entries found")

    # ---- K3-acct --------------------------------------------------------------
    root = fn_root(acct)
    prov = prov_binds(root)
    binds = pc.collect_binds(root)
    sites = sites_of(root, success_sites(root))
    ctx.floor("K3-acct", "PAM_SUCCESS sites in acct_mgmt", len(sites), 2)
    alts_seen = set()
    for node, conds in sites:
        n_auth_sites += 1
        lits = entailed(conds, binds)
        daemon = forced(lits, SPEC_STATUS_TRUE, prov, "DaemonClientBlocking::call_and_wait")
        desc = describe(lits, "unix_proto::ClientResponse", "core::Source")
        if daemon is not None:
            alts_seen.add("daemon")
            ctx.ok("K3-acct", acct["fn"], "success-site:PamStatus(Some(true))", "under ClientResponse::PamStatus(Some(true)) of call_and_wait")
            continue
        fb = forced(lits, SPEC_FALLBACK, prov, "RequestOptions::connect_to_daemon")
        b = bool(expiry_guard(acct, root, conds, prov))
        c = entries_found(lits, prov) is not None
        missing = [nm for nm, ok in (("arm Source::Fallback of connect_to_daemon", fb is not None), ("not(now >= expire)", b),
                                     ("user∧shadow entry found", c)) if not ok]
        if not missing:
            alts_seen.add("local")
        ctx.check(not missing, "K3-acct", acct["fn"],
                  "success-site:" + ("local-account" if not missing else f"[{desc}]missing:" + ",".join(missing)),
                  "local account: Source::Fallback ∧ entries found ∧ not expired",
                  f"PAM_SUCCESS in acct_mgmt is neither under ClientResponse::PamStatus(Some(true)) nor a complete local-account success "
                  f"(missing {missing}); enclosing arms: [{desc}]; guards: {pc.render(lits)[:8]} — the account would be admitted on a denial, "
                  "an unknown/unexpected reply, an unknown user or after expiry",
                  **loc(acct, node))
    ctx.check("daemon" in alts_seen, "K3-acct", acct["fn"], "alternative:PamStatus(Some(true))",
              "daemon-approved success site present", "no success site under PamStatus(Some(true)) found (anchor drift)", **loc(acct))

    # ---- K3-dispatch ------------------------------------------------------------
    root = fn_root(disp)
    prov = prov_binds(root)
    calls = calls_in(root, "core::sm_authenticate_fallback")
    ctx.floor("K3-dispatch", "calls of sm_authenticate_fallback in sm_authenticate", len(calls), 1)
    for node, conds in sites_of(root, calls):
        lits = entailed(conds, pc.collect_binds(root))
        ctx.check(forced(lits, SPEC_FALLBACK, prov, "RequestOptions::connect_to_daemon") is not None,
                  "K3-dispatch", disp["fn"], "call:sm_authenticate_fallback",
                  "local shadow authentication only under Source::Fallback",
                  f"sm_authenticate_fallback is called outside the arm Source::Fallback of connect_to_daemon() (guards {pc.render(lits)[:6]}): "
                  "the local shadow path would be used although the daemon is reachable", **loc(disp, node))
    root = fn_root(ctd)
    prov = prov_binds(root)
    fbs = [n for n in walk(root) if n.get("e") == "struct" and ends(def_of(n), "core::Source::Fallback")]
    ctx.floor("K3-dispatch", "constructions of Source::Fallback in connect_to_daemon", len(fbs), 1)
    for node, conds in sites_of(root, fbs):
        lits = entailed(conds, pc.collect_binds(root))
        ok = False
        for (p, leaf) in lits.values():
            if not p and leaf[1] in ("let", "arm") and pat_forces(leaf_pat(leaf), SPEC_SOME) and \
                    has_token(deep_tokens(leaf_scrut(leaf), prov, 4), "call", "DaemonClientBlocking::new"):
                ok = True
        ctx.check(ok, "K3-dispatch", ctd["fn"], "construct:Source::Fallback",
                  "Source::Fallback only when DaemonClientBlocking::new gave no client",
                  f"Source::Fallback is built at a site not under not(let Some(client) = <DaemonClientBlocking::new ..>) (guards {pc.render(lits)[:6]})",
                  **loc(ctd, node))

    # ---- K4-results -------------------------------------------------------------
    n_leaves = 0
    for rec, allowed_calls in ((conn, ()), (fall, ()), (acct, ()),
                               (disp, ("core::sm_authenticate_connected", "core::sm_authenticate_fallback"))):
        root = fn_root(rec)
        for leaf in result_leaves(root):
            n_leaves += 1
            d = def_of(leaf)
            if leaf.get("e") == "path" and d.startswith(RC + "::"):
                ctx.ok("K4-results", rec["fn"], "result:const:" + short(d, 1))
                continue
            lid = local_id(leaf)
            if lid is not None:
                b = binding_of(root, lid)
                if b is not None:
                    pat, scrut, sty = b
                    is_err = any(n.get("p") == "tstruct" and ends(def_of(n), "core::result::Result::Err") and
                                 lid in pat_bound_locals(n) for n in walk(pat))
                    if is_err and sty.replace(" ", "").endswith("PamResultCode>"):
                        ctx.ok("K4-results", rec["fn"], "result:propagated-err", "Err payload of a PamResult (non-success by K3-err-nonsuccess)")
                        continue
            if leaf.get("e") == "call" and allowed_calls and is_call_to(leaf, *allowed_calls):
                ctx.ok("K4-results", rec["fn"], "result:call:" + short(callee_of(leaf), 1))
                continue
            kind = leaf.get("e") + (":" + short(callee_of(leaf)) if leaf.get("e") in ("call", "mcall") else "")
            ctx.violation("K4-results", rec["fn"], "result:unrecognised:" + kind,
                          f"result expression `{ex_s(leaf)[:80]}` is neither a PamResultCode constant nor the Err payload of a PamResult call: "
                          "the rule cannot show it is never PAM_SUCCESS (shape not understood, fail closed)", **loc(rec, leaf))
    ctx.floor("K4-results", "result expressions of the authentication functions", n_leaves, 40)

    # ---- K3-err-nonsuccess + K1-success-scan (global) -----------------------------
    judged = {conn["fn"], fall["fn"], acct["fn"]}
    n_err = 0
    n_scan = 0
    n_judged_seen = 0
    crates = [PAM] + [c for c in ENTRY_CRATES if (c + ".lib") in F.crates()]
    for crate in crates:
        for name in F.fns_mentioning(crate, "PamResultCode"):
            rec = F.fn(crate, name)
            if rec is None or "body" not in rec:
                continue
            root = rec["body"]
            # (1) Err(x) with non-constant x
            errs = [n for n in walk(root) if n.get("e") == "call" and ends(n.get("ctor", ""), "core::result::Result::Err")
                    and n.get("ty", "").replace(" ", "").endswith("PamResultCode>") and n.get("args")
                    and not def_of(unwrap(n["args"][0])).startswith(RC + "::")]
            if errs:
                binds = pc.collect_binds(root)
                for node, conds in sites_of(root, errs):
                    n_err += 1
                    arg = local_id(node["args"][0])
                    lits = entailed(conds, binds)
                    ok = False
                    for (p, leaf) in lits.values():
                        if leaf[1] != "expr":
                            continue
                        e = unwrap(leaf[2])
                        if e.get("e") == "bin" and e["op"] in ("==", "!=") and (p == (e["op"] == "!=")):
                            sides = [unwrap(e["l"]), unwrap(e["r"])]
                            if any(def_of(s) == SUCCESS for s in sides) and any(local_id(s) == arg and arg is not None for s in sides):
                                ok = True
                    ctx.check(ok, "K3-err-nonsuccess", name, "Err(non-constant)",
                              "Err(code) built only under code != PAM_SUCCESS",
                              f"`Err({ex_s(node['args'][0])})` of a PamResult is built without the guard not(PAM_SUCCESS == code) "
                              f"(guards {pc.render(lits)[:6]}): the authentication functions return this payload unchanged, so an 'error' could be PAM_SUCCESS",
                              **loc(rec, node))
            # (2) conversions that could fabricate a PamResultCode (PAM_SUCCESS == 0) without naming the constant
            for node in walk(root):
                if node.get("e") in ("call", "mcall") and "PamResultCode" in node.get("ty", "") and \
                        any(ends(callee_of(node), x) for x in ("mem::transmute", "intrinsics::transmute", "mem::zeroed", "mem::transmute_copy",
                                                               "MaybeUninit::<T>::assume_init", "MaybeUninit::<T>::zeroed")):
                    ctx.violation("K1-success-scan", name, "fabricated-result-code:" + short(callee_of(node), 1),
                                  f"a PamResultCode is produced by {callee_of(node)} (PAM_SUCCESS is the zero value): the result is not a named constant the rule can judge",
                                  **loc(rec, node))
            # (3) PAM_SUCCESS value sites outside the judged functions
            if name in judged:
                n_judged_seen += len(success_sites(root))
                continue
            for node in success_sites(root):
                n_scan += 1
                why = ALLOW_SUCCESS.get(name)
                ctx.check(why is not None, "K1-success-scan", name, "success-site",
                          f"allow-listed: {why}",
                          "a PAM_SUCCESS value is produced in a function that is neither one of the judged authentication/authorisation functions "
                          "(sm_authenticate_connected, sm_authenticate_fallback, acct_mgmt) nor on the allow-list of session hooks — "
                          "its guards are not known to the rule (add a K3 alternative or an allow-list entry with a reason)",
                          **loc(rec, node))
    ctx.floor("K3-err-nonsuccess", "non-constant Err(code) sites in the PAM crate", n_err, 4)
    # positive control of the global scan: it must have seen the judged sites (allow-listed sites may legitimately disappear)
    ctx.floor("K1-success-scan", "PAM_SUCCESS value sites seen by the global scan in the judged functions", n_judged_seen, 4)
    ctx.floor("K3", "authentication/authorisation PAM_SUCCESS sites", n_auth_sites, 4)

    # ---- K2-wiring ---------------------------------------------------------------
    HOOK = "<pam_sparkle_common::pam::PamSparkle as pam_sparkle_common::pam::module::PamHooks>::"
    for hook, core_fn in (("sm_authenticate", "sm_authenticate"), ("acct_mgmt", "acct_mgmt")):
        rec = ctx.fn(PAM, f"pam_sparkle_common::<pam::PamSparkle as pam::module::PamHooks>::{hook}")
        for leaf in result_leaves(fn_root(rec)):
            d = def_of(leaf)
            ok = (leaf.get("e") == "path" and d.startswith(RC + "::") and d != SUCCESS) or \
                 (leaf.get("e") == "call" and callee_of(leaf) == CORE + core_fn)
            ctx.check(ok, "K2-wiring", rec["fn"], "result:" + (short(d, 1) if d else short(callee_of(leaf), 1) or leaf.get("e")),
                      f"hook returns core::{core_fn}(..) or an error constant",
                      f"PamHooks::{hook} returns `{ex_s(leaf)[:60]}` instead of core::{core_fn}(..): the judged function is bypassed", **loc(rec, leaf))
    n_entry = 0
    for crate in ENTRY_CRATES:
        if (crate + ".lib") not in F.crates():
            continue
        for ext, hook in (("pam_sm_authenticate", "sm_authenticate"), ("pam_sm_acct_mgmt", "acct_mgmt")):
            names = F.find_fns(crate, r"::" + ext + "$")
            for nm in names:
                rec = ctx.fn(crate, nm)
                n_entry += 1
                leaves = result_leaves(fn_root(rec))
                ok = bool(leaves) and all(l.get("e") == "call" and (HOOK + hook) in callee_any(l) for l in leaves)
                ctx.check(ok, "K2-wiring", nm, "entry->" + hook, f"{ext} returns PamSparkle::{hook}(..)",
                          f"{ext} does not return <PamSparkle as PamHooks>::{hook}(..) (found {[ex_s(l)[:50] for l in leaves]}): the judged path is bypassed",
                          **loc(rec))
    ctx.floor("K2-wiring", "extern PAM entry points checked", n_entry, 2)

    # ---- K4-check_pw ---------------------------------------------------------------
    ENUM = "sparkle_unix_common::unix_passwd::CryptPw"
    it = F.item(UX, "enum", ENUM)
    variants = [v["v"] for v in it["variants"]] if it else []
    ctx.check("Invalid" in variants and len(variants) >= 4, "K4-check_pw", ENUM, "enum-shape",
              f"variants {variants}", f"CryptPw no longer has the variant Invalid / the supported variants (found {variants})")
    supported = [v for v in variants if v != "Invalid"]
    cp = ctx.fn(UX, "sparkle_unix_common::unix_passwd::CryptPw::check_pw")
    root = fn_root(cp)
    self_locals = set(pat_bound_locals(cp["params"][0]["pat"])) if cp.get("params") else set()
    prov = prov_binds(root)
    leaves = result_leaves(root)
    nonfalse = [l for l in leaves if not pc.is_bool_lit(l, False)]
    ctx.floor("K4-check_pw", "verifying result expressions of check_pw", len(nonfalse), 3)
    seen_vars = set()
    for node, conds in sites_of(root, nonfalse):
        lits = entailed(conds, pc.collect_binds(root))
        okv = None
        for leaf in pos_pattern_lits(lits):
            pat = leaf_pat(leaf)
            vs = {t[4 + len(ENUM) + 2:] for t in tokens(pat) if t.startswith("def:" + ENUM + "::")}
            # every alternative must name a supported variant: no wildcard alternative, no Invalid
            alts = pat_alts(pat)
            if vs and vs <= set(supported) and all(a != "_" and "CryptPw::" in a for a in alts):
                sc = unwrap(leaf_scrut(leaf))
                if local_id(sc) in self_locals or any(local_id(n) in self_locals for n in deep_nodes(sc, prov, 2) if n.get("e") == "path"):
                    okv = sorted(vs)
        key = "verify:" + ("|".join(okv) if okv else "unguarded:" + (short(callee_of(node)) if node.get("e") in ("call", "mcall") else node.get("e")))
        if okv:
            seen_vars |= set(okv)
        ctx.check(okv is not None, "K4-check_pw", cp["fn"], key,
                  f"result `{ex_s(node)[:50]}` only for {okv}",
                  f"check_pw can return `{ex_s(node)[:60]}` (not the literal false) outside an arm of a supported CryptPw variant {supported} "
                  f"(guards {pc.render(lits)[:6]}): CryptPw::Invalid (locked, empty or unsupported hash) could verify", **loc(cp, node))
        ctx.sample(f"{cp['file']}:{node.get('line')} check_pw :: {okv} -> {ex_s(node)[:40]}")
    ctx.check(set(supported) <= seen_vars, "K4-check_pw", cp["fn"], "all-supported-variants-verified",
              f"{sorted(seen_vars)}", f"supported variants without a verifying arm: {sorted(set(supported) - seen_vars)} (table not understood)")

    # ---- K4-from_str -----------------------------------------------------------------
    fs = ctx.fn(UX, "sparkle_unix_common::<unix_passwd::CryptPw as core::str::traits::FromStr>::from_str")
    root = fn_root(fs)
    plocals = set()
    for p in fs.get("params", []):
        plocals |= set(pat_bound_locals(p["pat"]))
    n_rows = 0
    import re
    for node, conds in sites_of(root, result_leaves(root)):
        inner = unwrap(node)
        if inner.get("e") == "call" and ends(inner.get("ctor", ""), "core::result::Result::Err"):
            ctx.ok("K4-from_str", fs["fn"], "row:Err")
            continue
        val = None
        if inner.get("e") == "call" and ends(inner.get("ctor", ""), "core::result::Result::Ok") and inner.get("args"):
            val = unwrap(inner["args"][0])
        vd = def_of(val) if val is not None else ""
        if not vd.startswith(ENUM + "::"):
            ctx.violation("K4-from_str", fs["fn"], "row:unrecognised:" + inner.get("e", "?"),
                          f"from_str result `{ex_s(inner)[:60]}` is not Ok(CryptPw::<variant>) (shape not understood, fail closed)", **loc(fs, node))
            continue
        v = vd[len(ENUM) + 2:]
        if v == "Invalid":
            ctx.ok("K4-from_str", fs["fn"], "row:Invalid")
            continue
        n_rows += 1
        lits = entailed(conds, pc.collect_binds(root))
        prefixes = []
        for (p, leaf) in lits.values():
            if not p or leaf[1] != "expr":
                continue
            e = unwrap(leaf[2])
            if e.get("e") == "mcall" and ends(callee_of(e), "str>::starts_with", "starts_with") and "str" in e.get("recv_ty", "") \
                    and local_id(e["recv"]) in plocals and e.get("args"):
                a = unwrap(e["args"][0])
                if a.get("e") == "lit" and a.get("lk") == "str":
                    prefixes.append(a["v"])
        good = [x for x in prefixes if re.match(r"^\$[0-9A-Za-z]+\$", x)]
        ctx.check(bool(good), "K4-from_str", fs["fn"], f"row:{v}",
                  f"{v} only for prefix {good}",
                  f"CryptPw::{v} is produced without a dominating `<input>.starts_with(\"$id$\")` test (prefix literals found: {prefixes}; guards {pc.render(lits)[:6]}): "
                  "locked (`!`/`*`), empty or unsupported shadow fields would become a verifiable hash instead of CryptPw::Invalid", **loc(fs, node))
        ctx.sample(f"{fs['file']}:{node.get('line')} from_str :: {good} -> CryptPw::{v}")
    ctx.floor("K4-from_str", "supported-hash rows of from_str", n_rows, 3)

    # ---- K1-cryptpw (who may construct a verifiable CryptPw) -------------------------------
    derived = set()      # def-path prefixes of compiler-derived impls for CryptPw (Clone, ...)
    for i in F.items(UX):
        if i["item"] == "impl" and i.get("derived") and str(i.get("self_ty", "")).endswith("unix_passwd::CryptPw"):
            derived.add(i["name"] + "::")
    n_ctor = 0
    all_crates = [c[:-4] for c in F.crates() if c.endswith(".lib")] + [c for c in F.crates() if c.endswith(".bin")]
    if ctx.tier != "thorough":
        # quick: the crates of the unix integration (the only dependants of sparkle_unix_common); thorough: every crate
        all_crates = [c for c in all_crates if any(k in c for k in ("sparkle", "unix", "pam_", "nss_", "flavour", "ssh"))]
    for crate in all_crates:
        for name in F.fns_mentioning(crate, "unix_passwd::CryptPw::"):
            rec = F.fn(crate, name)
            if rec is None or "body" not in rec:
                continue
            for n in walk(rec["body"]):
                if n.get("e") in ("call", "path", "struct"):
                    d = def_of(n)
                    if d.startswith(ENUM + "::") and d[len(ENUM) + 2:] in supported:
                        n_ctor += 1
                        ok = name == fs["fn"] or any(name.startswith(pfx) for pfx in derived)
                        ctx.check(ok, "K1-cryptpw", name, "construct:" + d[len(ENUM) + 2:],
                                  "constructed in from_str / a derived impl",
                                  f"CryptPw::{d[len(ENUM) + 2:]} (a verifiable hash) is constructed outside CryptPw::from_str: the prefix table (K4-from_str) no longer covers every hash",
                                  **loc(rec, n))
    ctx.floor("K1-cryptpw", "constructions of verifiable CryptPw variants", n_ctor, 3)


# ---------------------------------------------------------------------------------------------------------------------
# The PAM module talks to the resolver with plain request/response framing on one cached stream and never matches replies to
# requests. The only thing that stops a late reply from being read as the answer to the NEXT request is that the stream is
# dropped after any error (timeout included). (added after seeded change C43: no reconnect after a timeout, so a `Success`
# arriving late was consumed by the following authentication, which returned PAM_SUCCESS without presenting a credential)

def connection_dropped_after_any_error(ctx):
    from .lib import pathcond as pc
    R = "K6-connection-dropped-after-error"
    UC = "sparkle_unix_common"
    f = ctx.fn(UC, "sparkle_unix_common::client_sync::DaemonClientBlocking::call_and_wait")
    inner = "sparkle_unix_common::client_sync::DaemonClientBlockingInner::call_and_wait"
    calls = [c for c in walk(f["body"]) if c.get("e") == "mcall" and is_call_to(c, inner)]
    if not ctx.check(len(calls) == 1, R, f["fn"], "inner-call-found", "one exchange per call",
                     f"expected one call of the inner request/response exchange, found {len(calls)} (shape not understood)", file=f["file"], line=f["line"]):
        return
    # the closures hung on the exchange's result (inspect_err / map_err / or_else) and Err arms of a match on it
    handlers = []
    for n in walk(f["body"]):
        if n.get("e") == "mcall" and n.get("name") in ("inspect_err", "map_err", "or_else") and any(x is calls[0] for x in walk(n["recv"])):
            for a in n["args"]:
                a = unwrap(a)
                if a.get("e") == "closure":
                    handlers.append(a["body"])
        if n.get("e") == "match" and any(x is calls[0] for x in walk(n["scrut"])):
            for arm in n["arms"]:
                if has_token(tokens(arm["pat"]), "def", "core::result::Result::Err"):
                    handlers.append(arm["body"])
    ok = False
    why = "no error handler on the exchange's result sets the reconnect flag"
    for h in handlers:
        def is_set(n):
            if n.get("e") != "assign":
                return False
            l, r = unwrap(n["l"]), unwrap(n["r"])
            return l.get("e") == "field" and l.get("f") == "reconnect" and r.get("e") == "lit" and r.get("v") == "true"
        for (site, conds) in pc.site_conditions(h, is_set):
            real = [c for c in conds if c != pc.TRUE]
            if not real:
                ok = True
            else:
                why = "the reconnect flag is only set under a condition (" + "; ".join(pc.render(pc.implied(real)))[:200] + ")"
    ctx.check(ok, R, f["fn"], "reconnect-on-every-error", "every failed exchange marks the stream for reconnection",
              f"DaemonClientBlocking::call_and_wait: {why}. After a failed or timed-out exchange the cached stream may still deliver the old reply; the next "
              "request on it (a password retry in sudo/sshd) reads that stale reply as its own answer — a late `Success` turns into PAM_SUCCESS for a request "
              "that presented no credential", file=f["file"], line=calls[0].get("line"))
    # and the flag is honoured before the next exchange: a reconnect branch guarded by the flag precedes the exchange
    honoured = any(n.get("e") == "if" and has_token(tokens(n["cond"]), "field", "reconnect")
                   and any(is_call_to(c, "connect_addr", "UnixStream::connect", "connect") for c in all_calls(n["then"]))
                   for n in walk(f["body"]))
    ctx.check(honoured, R, f["fn"], "flag-honoured-before-exchange", "if reconnect { new stream }",
              "the reconnect flag is no longer turned into a fresh stream before the next exchange", file=f["file"], line=f["line"])
