"""C28 Failed credentials are rate limited — clause: the soft lock gates every credential verification, only time steps and
failures move it, and the policy's full-lock branch covers every count at or above the threshold.

Decided (DESIGN.md C28):
 K3-gate        on the credential-verifying paths (auth Begin/Cred, auth_with_unix_pass, reauth_init) the verification sink
                (validate_creds / use of start_session's result / Password::verify / AuthSession::new_reauth) lies under a positive
                `is_valid()` gate whose other outcomes are `false` or "no soft lock exists", and every is_valid() is directly preceded
                by apply_time_step() under no additional guard.
 K3-failure     a denial leads to record_failure (Cred: under `AuthState::Denied` on validate_creds' result; unix: under the failed verify).
 K1-writers     CredSoftLock.state is written only by apply_time_step and record_failure (no success path resets it); CredSoftLock{..} is
                built only by new() with state Init; new() is called only on the three paths and only when the map has no lock for the
                credential; the lock map is only read, inserted into (when absent) and committed.
 K4-policy      failure_next_state: for Password (threshold 100) and Totp (threshold 3) every count >= threshold reaches a Locked state
                whose unlock_at is reset_at, and reset_at evaluates to the end of the UTC day / TOTP step (finite evaluation of the
                extracted integer template; complete because the chain only compares count with constants).
NOT decided: numeric monotonicity of the lock over sequences of time steps and failures (that further failures never shorten a lock),
application-password binds (not soft-locked by design today).
 K9-upgrade-keeps-credential-identity  from both gen_password_upgrade_mod helpers no credential constructor / Uuid::new_v4 is reachable except through
     Credential::upgrade_password, which sets the uuid back to self.uuid (the soft lock is keyed by the credential uuid).
"""
import re
from .lib.hir import *
from .lib.x_g6auth import *
from .lib import pathcond as pc

META = dict(
    technique="static path-condition, who-may-write and finite decision-table evaluation over type-checked HIR (K1/K3/K4/K7)",
    level_text="Every source site that verifies a password/TOTP step on the server is shown to be dominated by apply_time_step(); is_valid(); "
               "the soft-lock state has exactly two writers; the policy's branch table is evaluated for every failure count. Tests walk one "
               "trajectory at hand-picked times.",
    level_note="Clause only: gate placement, writers of the lock state, threshold coverage and reset-time formula are decided. "
               "NOT decided: numeric monotonicity over event sequences (further failures never shorten the lock), behaviour across servers, "
               "application-password binds. Trusted: rustc resolution, the rule tables (thresholds 100 / 3 from the property statement).",
)

LIB = "kanidmd_lib"
CORE = "kanidmd_core"
SL = "kanidmd_lib::credential::softlock::"
IS_VALID = SL + "CredSoftLock::is_valid"
APPLY = SL + "CredSoftLock::apply_time_step"
RECORD = SL + "CredSoftLock::record_failure"
NEW = SL + "CredSoftLock::new"
AUTH = "kanidmd_lib::idm::server::IdmServerAuthTransaction::<'_>::auth"
UNIX = "kanidmd_lib::idm::server::IdmServerAuthTransaction::<'_>::auth_with_unix_pass"
REAUTH = "kanidmd_lib::idm::reauth::<impl idm::server::IdmServerAuthTransaction<'_>>::reauth_init"
AS = "kanidmd_lib::idm::authsession::AuthSession::"
THRESHOLDS = {"Password": 100, "Totp": 3}


def gate_literals(site):
    """Positive expr literals that consult CredSoftLock::is_valid."""
    return [leaf for p, leaf in site.leaves(True, ("expr",)) if leaf_has(leaf, "call", IS_VALID)]


def check_gate(ctx, fn, body, site, inst, what):
    gl = gate_literals(site)
    if not gl:
        ctx.violation("K3-gate", fn["fn"], inst,
                      f"{what} is reachable without a positive CredSoftLock::is_valid() gate (guards found: {site.render()}) — a soft-locked "
                      "credential could still be tried", file=fn["file"], line=site.line)
        return
    # the gate's other outcomes
    problems = []
    for leaf in gl:
        e = leaf[2]
        leaves = value_leaves(e)
        for ls in sites_of_nodes(body, leaves):
            n = unwrap(ls.node)
            if n.get("e") == "mcall" and is_call_to(n, IS_VALID):
                continue
            if n.get("e") == "lit" and n.get("lk") == "bool":
                if n["v"] == "false":
                    continue
                no_lock = (ls.arm(lambda s, p: True, pol=False) is not None and any(l[1] == "let" for _, l in ls.leaves(False, ("let",)))) \
                    or ls.arm(lambda s, p: all(pat_def(x) == "core::option::Option::None" for x in top_alternatives(p))) is not None
                if no_lock:
                    continue
                problems.append(f"`true` at line {n.get('line')} not under a 'no soft lock exists' branch")
                continue
            problems.append(f"outcome `{ex_s(n)[:60]}` at line {n.get('line')} is neither is_valid() nor a constant")
    ctx.check(not problems, "K3-gate", fn["fn"], inst, f"{what} under is_valid() gate",
              f"the soft-lock gate of {what} has an unexpected outcome: {problems} — the gate can be true without consulting the lock",
              file=fn["file"], line=site.line)


def int_eval(e, env, binds, F, depth=0):
    """Evaluate an integer / Duration-in-seconds template. env: local id -> int. Raises ValueError on unknown shapes."""
    if depth > 12:
        raise ValueError("too deep")
    e = unwrap(e)
    k = e.get("e")
    if k == "lit" and e.get("lk") == "int":
        mm = re.match(r"\d+", str(e["v"]).replace("_", ""))
        if not mm:
            raise ValueError("integer literal " + str(e["v"]))
        return int(mm.group(0))
    if k == "path":
        r = e["res"]
        if "local" in r:
            if r["local"] in env:
                return env[r["local"]]
            if r["local"] in binds:
                return int_eval(binds[r["local"]], env, binds, F, depth + 1)
            raise ValueError("free local")
        v = F.const_val(LIB, r.get("def", ""))
        if v is None:
            raise ValueError("non-constant path " + r.get("def", "?"))
        return v
    if k == "bin":
        a = int_eval(e["l"], env, binds, F, depth + 1)
        b = int_eval(e["r"], env, binds, F, depth + 1)
        op = e["op"]
        if op == "+":
            return a + b
        if op == "-":
            if a - b < 0:
                raise ValueError("underflow")
            return a - b
        if op == "*":
            return a * b
        if op in ("/", "%"):
            if b == 0:
                raise ValueError("div by zero")
            return a // b if op == "/" else a % b
        raise ValueError("operator " + op)
    if k == "mcall" and is_call_to(e, "core::time::Duration::as_secs"):
        return int_eval(e["recv"], env, binds, F, depth + 1)
    if k == "call" and is_call_to(e, "core::time::Duration::from_secs") and len(e["args"]) == 1:
        return int_eval(e["args"][0], env, binds, F, depth + 1)
    raise ValueError("shape " + str(k) + " " + ex_s(e)[:40])


def eval_formula(f, env, binds, F, assume):
    """Truth of a path-condition formula under env; `assume(leaf)` decides non-numeric leaves (arm of the policy match)."""
    t = f[0]
    if t == "true":
        return True
    if t == "false":
        return False
    if t == "not":
        return not eval_formula(f[1], env, binds, F, assume)
    if t == "and":
        return all(eval_formula(g, env, binds, F, assume) for g in f[1])
    if t == "or":
        return any(eval_formula(g, env, binds, F, assume) for g in f[1])
    kind, payload = f[1], f[2]
    if kind == "expr":
        e = unwrap(payload)
        if e.get("e") == "bin" and e["op"] in ("<", "<=", ">", ">=", "==", "!="):
            a = int_eval(e["l"], env, binds, F)
            b = int_eval(e["r"], env, binds, F)
            return {"<": a < b, "<=": a <= b, ">": a > b, ">=": a >= b, "==": a == b, "!=": a != b}[e["op"]]
    r = assume(f)
    if r is None:
        raise ValueError("leaf not understood: " + pc.leaf_key(f)[:80])
    return r


def run(ctx):
    _run_main(ctx)
    upgrade_keeps_credential_identity(ctx)


def _run_main(ctx):
    F = ctx.facts
    ctx.explanation = ("Soft-lock clause: every credential verification on the server is dominated by apply_time_step(); is_valid(); a denial "
                       "records a failure; only apply_time_step/record_failure write the lock state; the full-lock branch covers every count at "
                       "or above the threshold and resets at the end of the UTC day / TOTP step. Numeric monotonicity over sequences is not decided.")
    auth = ctx.fn(LIB, AUTH)
    unix = ctx.fn(LIB, UNIX)
    reauth = ctx.fn(LIB, REAUTH)

    # ---- K3-gate ----------------------------------------------------------------------------------
    total_gates = 0
    for fn, sinks in ((auth, ("validate_creds", "start_session")), (unix, ("verify",)), (reauth, ("new_reauth",))):
        body = fn["body"]
        for sk in sinks:
            if sk == "validate_creds":
                st = sites(body, call_sink(AS + "validate_creds"))
                what = "AuthSession::validate_creds (credential step)"
            elif sk == "verify":
                st = sites(body, call_sink("kanidm_lib_crypto::Password::verify"))
                what = "Password::verify (unix password)"
            elif sk == "new_reauth":
                st = sites(body, call_sink(AS + "new_reauth"))
                what = "AuthSession::new_reauth (re-authentication session)"
            else:
                # Begin: the mechanism is selected before the lock is consulted; what is gated is handing the result on.
                calls = [n for n in walk(body) if n.get("e") in ("call", "mcall") and is_call_to(n, AS + "start_session")]
                locals_ = []
                direct = []
                for s_ in walk(body):
                    if s_.get("s") == "let" and "init" in s_ and s_["pat"].get("p") == "bind":
                        if any(c is x for c in calls for x in walk(s_["init"])):
                            locals_.append(s_["pat"]["local"])
                bound_calls = set()
                for s_ in walk(body):
                    if s_.get("s") == "let" and "init" in s_ and s_["pat"].get("p") == "bind" and s_["pat"]["local"] in locals_:
                        for x in walk(s_["init"]):
                            bound_calls.add(id(x))
                direct = [c for c in calls if id(c) not in bound_calls]
                st = sites(body, lambda n: (n.get("e") == "path" and n["res"].get("local") in locals_) or any(n is c for c in direct))
                what = "the result of AuthSession::start_session (mechanism step)"
            ctx.floor("K3-gate", f"{sk} sinks in {short(fn['fn'], 1)}", len(st), 1)
            for i, s in enumerate(st):
                total_gates += 1
                check_gate(ctx, fn, body, s, f"gate:{sk}" + (f"#{i}" if i else ""), what)
        # apply_time_step directly before every is_valid, under no extra guard
        seq = [n for n in walk(body) if n.get("e") in ("call", "mcall") and is_call_to(n, IS_VALID, APPLY)]
        v_sites = {id(s.node): s for s in sites(body, call_sink(IS_VALID, APPLY))}
        k = 0
        for idx, n in enumerate(seq):
            if not is_call_to(n, IS_VALID):
                continue
            prev = seq[idx - 1] if idx > 0 else None
            ok = prev is not None and is_call_to(prev, APPLY)
            if ok:
                a, b = v_sites.get(id(prev)), v_sites.get(id(n))
                ok = a is not None and b is not None and set(a.lits.keys()) <= set(b.lits.keys())
            ctx.check(ok, "K3-gate", fn["fn"], "apply_time_step-before-is_valid" + (f"#{k}" if k else ""),
                      "apply_time_step() precedes is_valid()",
                      "is_valid() is consulted without apply_time_step() having been applied first on the same path — the lock would never "
                      "clear / a stale state is read", file=fn["file"], line=n.get("line"))
            k += 1
        ctx.floor("K3-gate", f"is_valid() consultations in {short(fn['fn'], 1)}", k, 2 if fn is auth else 1)
    for tgt, allowed in ((AS + "validate_creds", {AUTH}), (AS + "start_session", {AUTH}), (AS + "new_reauth", {REAUTH})):
        cs = callers_of(F, [LIB, CORE], tgt)
        ctx.floor("K3-gate", f"callers of {short(tgt)}", len(cs), 1)
        for c in sorted(cs):
            ctx.check(c in allowed, "K3-gate", c, f"calls:{short(tgt)}", "gated path",
                      f"{short(tgt)} is called from {short(c)}, which is not one of the soft-lock-gated paths — credentials could be tried without the lock",
                      line=cs[c][0])

    # ---- K3-failure ---------------------------------------------------------------------------------
    st = sites(auth["body"], call_sink(RECORD))
    ctx.floor("K3-failure", "record_failure sites in auth", len(st), 1)
    for i, s in enumerate(st):
        den = s.arm(lambda sc, p: all(pat_def(x) == "kanidmd_lib::idm::authentication::AuthState::Denied" for x in top_alternatives(p)))
        chained = any(n.get("e") == "mcall" and calls_in(n["recv"], AS + "validate_creds") and any(x is s.node for a in n["args"] for x in walk(a))
                      for n in walk(auth["body"]))
        extra = [k for (p, k) in s.lits.keys() if not p and k.startswith("expr:")]
        ctx.check(den is not None and chained, "K3-failure", auth["fn"], "denied-records-failure" + (f"#{i}" if i else ""),
                  "validate_creds(..).inspect(Denied => record_failure)",
                  f"record_failure must run on validate_creds' Denied result (Denied arm:{den is not None}, chained on validate_creds:{chained}) — "
                  "failed attempts would not count", file=auth["file"], line=s.line)
    st = sites(unix["body"], call_sink(RECORD))
    ctx.floor("K3-failure", "record_failure sites in auth_with_unix_pass", len(st), 1)
    okk = any(s.has(False, lambda l: leaf_has(l, "call", "kanidm_lib_crypto::Password::verify"), ("expr",)) for s in st)
    ctx.check(okk, "K3-failure", unix["fn"], "failed-verify-records-failure", "under failed Password::verify",
              "no record_failure under the failed branch of Password::verify — failed unix password attempts would not count",
              file=unix["file"], line=st[0].line if st else unix["line"])
    # every non-success exit after the verify passes record_failure: the false branch of verify contains it
    for s in sites(unix["body"], lambda n: n.get("e") == "ret" and not n.get("exp")):
        if s.has(False, lambda l: leaf_has(l, "call", "kanidm_lib_crypto::Password::verify"), ("expr",)):
            blk_ok = False
            for n in walk(unix["body"]):
                if n.get("e") == "block" and any(x is s.node for x in walk(n)) and calls_in(n, RECORD):
                    seq_ = [x for x in walk(n) if (x.get("e") in ("call", "mcall") and is_call_to(x, RECORD)) or x is s.node]
                    blk_ok = blk_ok or (seq_ and seq_[0] is not s.node)
            ctx.check(blk_ok, "K3-failure", unix["fn"], "failed-verify-exit-after-record", "record_failure precedes the exit",
                      "an exit under the failed Password::verify is not preceded by record_failure", file=unix["file"], line=s.line)

    # ---- K1-writers -----------------------------------------------------------------------------------
    writers, builders = {}, {}
    for n in F.fns_mentioning(LIB, "CredSoftLock"):
        if is_derived_fn(F, LIB, n):
            continue
        d = F.fn(LIB, n)
        w = field_writes(d["body"], "state", "softlock::CredSoftLock")
        if w:
            writers[n] = (d, w)
        b = [x for x in walk(d["body"]) if x.get("e") == "struct" and def_of(x) == SL + "CredSoftLock"]
        if b:
            builders[n] = (d, b)
    ctx.floor("K1-writers", "functions writing CredSoftLock.state", len(writers), 2)
    for n, (d, w) in sorted(writers.items()):
        ctx.check(n in (APPLY, RECORD), "K1-writers", n, "writes-lock-state", f"allowed ({', '.join(k for k, _ in w)})",
                  f"CredSoftLock.state is written here ({', '.join(k for k, _ in w)}); only apply_time_step and record_failure may move the lock — "
                  "any other writer (e.g. a reset on successful login) lets an attacker clear the failure count", file=d["file"], line=w[0][1].get("line"))
    ctx.floor("K1-writers", "functions building CredSoftLock{..}", len(builders), 1)
    for n, (d, b) in sorted(builders.items()):
        init_ok = all(any(f["f"] == "state" and def_of(unwrap(f["x"])) == SL + "LockState::Init" for f in x.get("fields", [])) and "base" not in x for x in b)
        ctx.check(n == NEW and init_ok, "K1-writers", n, "builds-lock", "CredSoftLock::new with state Init",
                  "CredSoftLock{..} is built outside CredSoftLock::new or not in state Init — a fresh lock forgets recorded failures",
                  file=d["file"], line=b[0].get("line"))
    # the policy a lock is created with is the credential's own: CredSoftLockPolicy values are produced only by
    # Credential::softlock_policy (per credential type) and Account::primary_cred_uuid_and_policy (Unrestricted for accounts without
    # a primary credential). A lock created with a constant policy on one path is shared — locks are keyed by credential uuid — with
    # every other path, so e.g. a TOTP credential first touched by a unix bind would be rate-limited as a plain password.
    # (added after seeded change C28: auth_with_unix_pass created the lock with CredSoftLockPolicy::Password)
    POLICY_SOURCES = {
        "kanidmd_lib::credential::Credential::softlock_policy": "maps the credential type to its policy",
        "kanidmd_lib::idm::account::Account::primary_cred_uuid_and_policy": "Unrestricted when the account has no primary credential",
    }
    n_src = 0
    for name in F.fns_mentioning(LIB, "CredSoftLockPolicy::"):
        d = F.fn(LIB, name)
        if d is None or d.get("kind") not in ("fn", "assocfn") or "as core::clone::Clone>" in name or "as core::fmt::Debug>" in name:
            continue
        made = [x for x in walk(d["body"]) if x.get("e") in ("path", "call", "struct") and (def_of(x) or "").startswith(SL + "CredSoftLockPolicy::")]
        if not made:
            continue
        n_src += 1
        ctx.check(name in POLICY_SOURCES, "K1-policy-from-credential", name, "constructs:CredSoftLockPolicy",
                  f"policy source ({POLICY_SOURCES.get(name, '')})",
                  f"{short(name)} picks a soft-lock policy itself ({short(def_of(made[0]), 1)}) instead of taking the credential's own (Credential::softlock_policy): "
                  "the lock is keyed by credential uuid and shared by all authentication paths, so whichever path creates it first fixes the rate limit for "
                  "every later attempt — a second factor can end up with the (much laxer) password limit", file=d["file"], line=made[0].get("line"))
    ctx.floor("K1-policy-from-credential", "functions producing a soft-lock policy", n_src, 2)
    cs = callers_of(F, [LIB, CORE], NEW)
    ctx.floor("K1-writers", "callers of CredSoftLock::new", len(cs), 3)
    for c in sorted(cs):
        ctx.check(c in (AUTH, UNIX, REAUTH), "K1-writers", c, "calls:CredSoftLock::new", "lock creation on an auth path",
                  f"CredSoftLock::new is called from {short(c)}; a new lock object replaces the recorded failures", line=cs[c][0])
    READS = {"get", "contains_key", "len", "is_empty", "iter", "keys", "values", "commit", "insert"}
    n_ins = 0
    for fn in (auth, unix, reauth):
        body = fn["body"]

        def absent(s):
            return s.arm(lambda sc, p: has_token(tokens(sc), "call", "get") and "CredSoftLock" in str(unwrap(sc).get("recv_ty", ""))
                         and all(pat_def(x) == "core::option::Option::Some" for x in top_alternatives(p)), pol=False) is not None
        k = 0
        for s in sites(body, lambda n: (n.get("e") == "call" and is_call_to(n, NEW))
                       or (n.get("e") == "mcall" and n.get("name") == "insert" and "CredSoftLock" in str(n.get("recv_ty", "")))):
            n_ins += 1
            kind = "new" if s.node.get("e") == "call" else "insert"
            ctx.check(absent(s), "K1-writers", fn["fn"], f"lock-{kind}-only-when-absent" + (f"#{k}" if k > 1 else ""),
                      "under `map.get(cred) is None`",
                      f"a soft lock is created/inserted ({kind}) without first finding the map has none for this credential (guards: {s.render()}) — "
                      "an existing lock and its failure count would be replaced", file=fn["file"], line=s.line)
            k += 1
        for n in walk(body):
            if n.get("e") == "mcall" and "WriteTxn" in str(n.get("recv_ty", "")) and "CredSoftLock" in str(n.get("recv_ty", "")):
                ctx.check(n.get("name") in READS, "K1-writers", fn["fn"], f"lock-map-op:{n.get('name')}", "read / insert-when-absent / commit",
                          f"the soft-lock map is modified with `{n.get('name')}` — removing or replacing entries resets failure counts",
                          file=fn["file"], line=n.get("line"))
    ctx.floor("K1-writers", "lock creation/insert sites", n_ins, 6)

    # ---- K4-policy --------------------------------------------------------------------------------------
    fns = ctx.fn(LIB, SL + "CredSoftLockPolicy::failure_next_state")
    body = fns["body"]
    binds = pc.collect_binds(body)
    params = fns["params"]
    cnt_ids = [p["pat"]["local"] for p in params if p["ty"] == "usize" and p["pat"].get("p") == "bind"]
    ct_ids = [p["pat"]["local"] for p in params if p["ty"].endswith("time::Duration") and p["pat"].get("p") == "bind"]
    pm = find_matches(body, lambda m: "CredSoftLockPolicy" in m.get("scrut_ty", ""))
    if not ctx.check(len(cnt_ids) == 1 and len(ct_ids) == 1 and len(pm) == 1, "K4-policy", fns["fn"], "table-found",
                     "match over the policy with (count, ct) parameters",
                     "failure_next_state is no longer `match self {..}` over (count: usize, ct: Duration) — shape not understood",
                     file=fns["file"], line=fns["line"]):
        return
    cnt, ct = cnt_ids[0], ct_ids[0]
    m = pm[0]
    locked_sites = sites(body, lambda n: n.get("e") == "struct" and def_of(n) == SL + "LockState::Locked")
    for variant, T in THRESHOLDS.items():
        vdef = SL + "CredSoftLockPolicy::" + variant
        arms = arms_for_variant(m, vdef)
        if not ctx.check(len(arms) == 1 and "guard" not in arms[0], "K4-policy", fns["fn"], f"arm:{variant}", "arm found",
                         f"no single unguarded arm for CredSoftLockPolicy::{variant}", file=fns["file"], line=m.get("line")):
            continue
        arm = arms[0]
        mine = [s for s in locked_sites if any(x is s.node for x in walk(arm["body"]))]
        ctx.floor("K4-policy", f"Locked states built for {variant}", len(mine), 2)
        step_ids = bound_locals(arm["pat"])            # Totp(step)
        period_env_val = 30 if variant == "Totp" else None

        def assume(leaf, arm=arm):
            if leaf[1] == "arm":
                return leaf[2][1] is arm["pat"]
            return None

        def field_expr(s, name):
            for f in s.node["fields"]:
                if f["f"] == name:
                    return f["x"]
            return None
        # window end formula
        bad_formula = None
        for s in mine:
            rx = field_expr(s, "reset_at")
            try:
                for P in ([86400] if variant == "Password" else [30, 60, 7]):
                    for t in (0, 1, P - 1, P, P + 1, 2 * P - 1, 2 * P, 12345, 1700000000, 1700000000 + P // 2):
                        env = {ct: t}
                        for sid in step_ids:
                            env[sid] = P
                        got = int_eval(rx, env, binds, F)
                        want = (t // P + 1) * P
                        if got != want:
                            raise ValueError(f"reset_at({t}) = {got}, expected end of window {want} (period {P})")
            except ValueError as ex:
                bad_formula = (s, str(ex))
                break
        ctx.check(bad_formula is None, "K4-policy", fns["fn"], f"reset_at:{variant}",
                  "reset_at = end of the " + ("UTC day" if variant == "Password" else "TOTP step"),
                  f"reset_at of a {variant} lock is not the end of the current {'UTC day' if variant == 'Password' else 'TOTP step'}: "
                  f"{bad_formula[1] if bad_formula else ''} — the failure budget would span a different window",
                  file=fns["file"], line=bad_formula[0].line if bad_formula else arm["body"].get("line"))
        # threshold coverage
        consts = [int(str(n["v"]).replace("_", "")) for n in walk(arm["body"]) if n.get("e") == "lit" and n.get("lk") == "int" and str(n["v"]).replace("_", "").isdigit()]
        top = max(consts + [T]) + 3
        first_bad = None
        full_from = None
        try:
            for c in range(0, top + 1):
                env = {cnt: c, ct: 1700000000}
                for sid in step_ids:
                    env[sid] = 30
                reached = [s for s in mine if all(eval_formula(f, env, binds, F, assume) for f in s.conds)]
                if len(reached) != 1:
                    raise ValueError(f"count={c} reaches {len(reached)} Locked sites")
                s = reached[0]
                ux, rx = unwrap(field_expr(s, "unlock_at")), unwrap(field_expr(s, "reset_at"))
                full = (ux.get("e") == "path" and rx.get("e") == "path" and "local" in ux["res"] and ux["res"].get("local") == rx["res"].get("local"))
                if full and full_from is None:
                    full_from = c
                if c >= T and not full and first_bad is None:
                    first_bad = (c, s.line)
        except ValueError as ex:
            ctx.violation("K4-policy", fns["fn"], f"threshold:{variant}", f"decision chain not understood (fail closed): {ex}",
                          file=fns["file"], line=arm["body"].get("line"))
            continue
        ctx.check(first_bad is None, "K4-policy", fns["fn"], f"threshold:{variant}",
                  f"every count >= {T} locks until reset_at (full lock from count {full_from}; evaluated 0..{top})",
                  f"count = {first_bad[0] if first_bad else ''} (>= {T}) reaches a Locked state whose unlock_at is not reset_at — more than {T} failures "
                  f"fit into one {'UTC day' if variant == 'Password' else 'TOTP step'}", file=fns["file"], line=first_bad[1] if first_bad else None)
        ctx.sample(f"failure_next_state {variant}: full lock from count {full_from}, threshold {T}, constants {sorted(set(consts))}")
    ctx.exhaustive = True


# ---------------------------------------------------------------------------------------------------------------------
# The soft-lock state is keyed by the credential's uuid. A successful login may queue a hash upgrade (PwUpgrade /
# UnixPwUpgrade delayed actions); if the upgrade built a *new* credential (fresh uuid) instead of re-hashing the existing one,
# the next attempt would start from an empty lock: the failure count would reset because of a successful login. So from the two
# upgrade helpers no credential constructor and no Uuid::new_v4 may be reachable, and both go through Credential::upgrade_password.

def upgrade_keeps_credential_identity(ctx):
    import re as _re
    F = ctx.facts
    R_ = "K9-upgrade-keeps-credential-identity"
    g = {}
    for (caller, callee, _r, _l, _e, _s) in F.calls(LIB):
        g.setdefault(_re.sub(r"::\{closure#\d+\}", "", caller), set()).add(callee)
    starts = sorted(n for n in g if n.endswith("::gen_password_upgrade_mod"))
    ctx.floor(R_, "password upgrade helpers", len(starts), 2)
    FORBID = ("::new_v4", "Credential::new_password_only", "Credential::new_from_password", "Credential::new_generatedpassword_only")
    for s0 in starts:
        seen, st, par = {s0}, [s0], {}
        while st:
            x = st.pop()
            for y in g.get(x, ()):
                if y not in seen and (y.startswith("kanidmd_lib::") or y.endswith("::new_v4")):
                    seen.add(y)
                    par[y] = x
                    if not y.endswith("Credential::upgrade_password"):   # the uuid-restoring primitive, checked on its own below
                        st.append(y)
        bad = sorted(y for y in seen if y.endswith(FORBID))
        path = ""
        if bad:
            p, y = [], bad[0]
            while y in par:
                p.append(short(y, 2))
                y = par[y]
            path = " <- ".join(p + [short(s0, 2)])
        fn = F.fn(LIB, s0)
        ctx.check(not bad, R_, s0, "no-fresh-credential-reachable", f"{len(seen)} functions reachable, none builds a new credential / uuid",
                  f"the hash-upgrade helper reaches {[short(b, 2) for b in bad]} ({path}): the upgraded credential gets a new uuid, the soft lock keyed by the old uuid "
                  "is abandoned and the failure count restarts after a successful login", file=fn["file"] if fn else None, line=fn["line"] if fn else None)
        ctx.check(any(y.endswith("Credential::upgrade_password") for y in g.get(s0, ())), R_, s0, "via:Credential::upgrade_password",
                  "re-hashes the existing credential", "the hash-upgrade helper no longer goes through Credential::upgrade_password (which keeps the credential uuid)",
                  file=fn["file"] if fn else None, line=fn["line"] if fn else None)
    up = ctx.fn(LIB, "kanidmd_lib::credential::Credential::upgrade_password")
    selfs = {p["pat"].get("local") for p in up["params"] if p["pat"].get("name") == "self"}
    restores = []
    for x in walk(up["body"]):
        if x.get("e") == "assign":
            l, r = unwrap(x["l"]), unwrap(x["r"])
            if l.get("e") == "field" and l.get("f") == "uuid" and r.get("e") == "field" and r.get("f") == "uuid":
                rb = unwrap(r["x"])
                if rb.get("e") == "path" and rb.get("res", {}).get("local") in selfs:
                    restores.append(x)
    ctx.check(bool(restores), R_, up["fn"], "restores-own-uuid", "cred.uuid = self.uuid after update_password",
              "Credential::upgrade_password no longer sets the re-hashed credential's uuid back to its own: update_password rotates the uuid, so the soft lock keyed by it "
              "restarts after a successful login", file=up["file"], line=up["line"])
