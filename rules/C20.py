"""C20 UUIDs are immutable and the system range is protected.

Decided (DESIGN.md C20):
 (a) K2  `Base` is the first plugin of the three pre-write registries (own hook, propagated; operations run them before
         the backend write);
 (b) K4  `Base::pre_modify` and `Base::pre_batch_modify`: the closure given to `try_for_each` over *all* modifications
         maps every `Modify` variant except `Assert` to `Some(<its attribute>)`, compares that with
         `Some(&Attribute::Uuid)` and returns Err on equality; both functions agree on the variant set;
 (c) K3  `Base::pre_create_transform`: below `DYNAMIC_RANGE_MINIMUM_UUID` the only path that neither raises the
         rejection flag nor returns Err is under `ce.ident.is_internal()`; the flag is never cleared and every Ok exit is
         behind `if flag { return Err }`;
 (d) K3  create/delete `protected_filter_entry`: in the arms for `User` and `Migration` origins every non-Deny result is
         behind `uuid <= UUID_ANONYMOUS  =>  Deny`;
 (e) K4  `apply_create_access` / `apply_delete_access`: a `Deny` of protected_filter_entry raises a flag that is never
         cleared, and every non-Deny result of the function is under `not flag` (Deny dominates grants).
Not decided: the sync path (C50), purge/replication internals (internal identities by design).
"""
from .lib.hir import (walk, unwrap, callee_of, callee_any, ends, short, def_of, tokens, has_token, pat_alternatives,
                      pat_norm, ex_s)
from .lib import pathcond as pc
from .lib.x_plugins import Pipelines, Flow, success_exits, hook_fn, LIB

META = dict(
    technique="plugin pipeline extraction (K2), decision-table extraction over the Modify enum (K4), path conditions of success sinks (K3) "
              "with the accumulating-flag idiom, all on type-checked HIR",
    level_text="All five modification kinds (enumerated from the Modify enum's item facts) for both modify flavours, every success exit of the "
               "create-time range check and every non-Deny result of the create/delete protection filters are enumerated and shown to be guarded as "
               "stated, independent of the access controls configured. Tests cover a few uuid modifications under the default admin.",
    level_note="Decides the clauses (a)-(e) listed in rules/C20.py for user requests. Not decided: the synchronisation path (C50), internal identities "
               "(allowed by design), and that Entry::apply_modlist cannot alter uuid by other means than the Modify variants. Trusted: rustc's resolution, the rule tables.",
)

PRE = ["run_pre_create_transform", "run_pre_modify", "run_pre_batch_modify"]
MODIFY = "kanidmd_lib::modify::Modify"
ATTR_UUID = "kanidm_proto::attribute::Attribute::Uuid"
ITER_OK = ("iter", "values", "flat_map", "into_iter", "flatten", "iter_mut", "as_ref", "deref")


def local_of(e):
    e = unwrap(e)
    if isinstance(e, dict) and e.get("e") == "path" and "local" in e["res"]:
        return e["res"]["local"]
    return None


def is_lit_bool(e, v):
    e = unwrap(e)
    return isinstance(e, dict) and e.get("e") == "lit" and e.get("lk") == "bool" and e.get("v") == ("true" if v else "false")


def leaves(e):
    """expressions in value position of e (through blocks, if, match)."""
    if not isinstance(e, dict):
        return
    k = e.get("e")
    if k == "blockexpr":
        yield from leaves(e["b"])
    elif k == "block":
        if "tail" in e:
            yield from leaves(e["tail"])
        else:
            # a block without tail: value is () or it diverges through its last statement
            last = e["stmts"][-1] if e["stmts"] else None
            if last is not None and last.get("s") == "expr" and unwrap(last["x"]).get("e") == "ret":
                yield unwrap(last["x"])
            else:
                yield e
    elif k == "if":
        yield from leaves(e["then"])
        if "else" in e:
            yield from leaves(e["else"])
        else:
            yield e
    elif k == "match" and e.get("src") == "Normal":
        for a in e["arms"]:
            yield from leaves(a["body"])
    else:
        yield e


def is_err(e):
    e = unwrap(e)
    if isinstance(e, dict) and e.get("e") == "ret":
        return "x" in e and is_err(e["x"])
    return isinstance(e, dict) and e.get("e") == "call" and ends(e.get("ctor") or "", "core::result::Result::Err")


# ---------------------------------------------------------------------------------------------------------------------
# (b) Base::pre_modify / pre_batch_modify

def modify_table(ctx, rec, field, variants):
    """-> set of variants mapped to the uuid test, or None"""
    rule = "K4-uuid-immutable"
    fn = rec["fn"]
    # the try_for_each call that is the function's result
    is_tfe = lambda n: n.get("e") == "mcall" and ends(callee_of(n), "Iterator::try_for_each") and not n.get("exp")
    fl = Flow(ctx.facts, LIB, {"T": is_tfe})
    succ = success_exits(fl.run(rec))
    sites = fl.ordered_sites("T")
    ok = bool(sites) and bool(succ) and all("T" in x.st.must for x in succ)
    if not ctx.check(ok, rule, fn, "result-is-try_for_each", "the function's result is the try_for_each over the modifications",
                     f"{short(fn, 2)} can succeed without the per-modification uuid test having succeeded (no propagated try_for_each on every success path)",
                     file=rec["file"], line=rec["line"]):
        return None
    got = None
    for s in sites:
        t = s.node
        # receiver chain: only whole-collection iterators over me.<field>
        chain_ok, seen_field = True, False
        r = t["recv"]
        bad = []
        for n in walk(r):
            if n.get("e") in ("call", "mcall"):
                nm = short(callee_of(n) or n.get("name", ""), 1)
                if nm not in ITER_OK:
                    chain_ok = False
                    bad.append(nm)
            if n.get("e") == "field" and n.get("f") == field:
                seen_field = True
        ctx.check(chain_ok and seen_field, rule, fn, f"iterates-all:{field}", f"iterates every modification of me.{field}",
                  f"the uuid test in {short(fn, 2)} does not run over every modification of me.{field} "
                  f"({'adapter ' + str(bad) + ' may skip some' if bad else 'field not found'}) — a uuid modification could escape it",
                  file=rec["file"], line=t.get("line"))
        clos = [a for a in t["args"] if unwrap(a).get("e") == "closure"]
        if not ctx.check(len(clos) == 1, rule, fn, "closure-found", "closure argument",
                         "try_for_each is not given a closure literal (shape not understood)", file=rec["file"], line=t.get("line")):
            continue
        body = unwrap(clos[0])["body"]
        m = None
        for n in walk(body, into_closures=False):
            if n.get("e") == "match" and n.get("src") == "Normal" and n.get("scrut_ty", "").replace("&", "").strip().endswith("modify::Modify"):
                m = n
                break
        if not ctx.check(m is not None, rule, fn, "table-found", "match over Modify",
                         "no `match` over modify::Modify in the closure (shape not understood)", file=rec["file"], line=t.get("line")):
            continue
        # the local the table is bound to
        tab_local = None
        for n in walk(body, into_closures=False):
            if n.get("s") == "let" and n.get("init") is not None and unwrap(n["init"]) is m and n["pat"].get("p") == "bind":
                tab_local = n["pat"]["local"]
        mapped = set()
        escapes = {}
        for a in m["arms"]:
            alts = alternatives(a["pat"])
            b = unwrap(a["body"])
            is_some = b.get("e") == "call" and ends(b.get("ctor") or "", "core::option::Option::Some") and len(b["args"]) == 1
            for (vdef, first) in alts:
                if vdef is None:
                    continue
                v = vdef.split("::")[-1]
                if is_some and first is not None and attr_binding_matches(first, b["args"][0]):
                    mapped.add(v)
                elif v in variants:
                    # an arm (guarded or not) that takes an attribute-bearing variant past the uuid test
                    escapes[v] = a["body"].get("line")
        for v, ln in sorted(escapes.items()):
            ctx.violation(rule, fn, f"variant:{v}:escapes",
                          f"{short(fn, 2)} has an arm that matches Modify::{v} but does not hand its attribute to the uuid test "
                          f"(the arm yields something other than Some(<its attribute>)): a Modify::{v} on uuid can be accepted on that path, "
                          "whatever the arm's guard intends", file=rec["file"], line=ln)
        # the test
        test = None
        for n in walk(body, into_closures=False):
            if n.get("e") == "if" and not n.get("exp"):
                c = unwrap(n["cond"])
                if c.get("e") == "bin" and c["op"] == "==" and has_token(tokens(c), "def", ATTR_UUID):
                    sides = [local_of(c["l"]), local_of(c["r"])]
                    other = c["r"] if sides[0] is not None else c["l"]
                    o = unwrap(other)
                    if tab_local is not None and tab_local in sides and o.get("e") == "call" and ends(o.get("ctor") or "", "core::option::Option::Some"):
                        test = n
        t_ok = test is not None and all(is_err(l) for l in leaves(test["then"])) and any(True for _ in leaves(test["then"]))
        ctx.check(t_ok, rule, fn, "uuid-test=>Err", "attr == Some(&Attribute::Uuid) => Err",
                  f"{short(fn, 2)}: the closure does not compare the extracted attribute with Some(&Attribute::Uuid) and return Err on equality — "
                  f"a modification of uuid would be accepted", file=rec["file"], line=(test or m).get("line"))
        for v in variants:
            ctx.check(v in mapped, rule, fn, f"variant:{v}", f"Modify::{v}(attr, ..) -> Some(attr) -> uuid test",
                      f"{short(fn, 2)} does not map Modify::{v} to its attribute (mapped: {sorted(mapped)}): a Modify::{v} targeting uuid is not rejected",
                      file=rec["file"], line=m.get("line"))
        ctx.sample(f"{short(fn, 2)}: Modify variants tested against uuid: {sorted(mapped)}")
        got = mapped if got is None else (got & mapped)
    return got


def alternatives(p):
    """[(variant def-path | None, first sub-pattern | None)] of a (possibly or-) pattern over Modify"""
    k = p.get("p")
    if k == "or":
        out = []
        for x in p["pats"]:
            out.extend(alternatives(x))
        return out
    if k == "ref":
        return alternatives(p["pat"])
    if k == "bind" and "sub" in p:
        return alternatives(p["sub"])
    if k == "tstruct":
        d = p["path"].get("def", "")
        return [(d if d.startswith(MODIFY + "::") else None, p["pats"][0] if p["pats"] else None)]
    if k == "struct":
        d = p["path"].get("def", "")
        return [(d if d.startswith(MODIFY + "::") else None, None)]
    return [(None, None)]


def attr_binding_matches(first_pat, arg):
    """the Some(..) argument is the binding of the variant's first field (the attribute)"""
    a = unwrap(arg)
    if first_pat.get("p") == "ref":
        first_pat = first_pat["pat"]
    if first_pat.get("p") != "bind" or a.get("e") != "path" or "local" not in a["res"]:
        return False
    # or-patterns: every alternative binds the same name; the use resolves to the first alternative's id
    return first_pat["local"] == a["res"]["local"] or first_pat.get("name") == a["res"].get("name")


# ---------------------------------------------------------------------------------------------------------------------
# (c) Base::pre_create_transform

def paths_through(e, conds=()):
    """Enumerate paths through a statement/expression tree made of blocks and ifs:
    yields (conds, effects) with effects = list of ('assign', local, rhs) | ('ret', expr).  None in effects = shape not understood."""
    if not isinstance(e, dict):
        yield (conds, [])
        return
    k = e.get("e")
    if e.get("exp") and k in ("blockexpr", "if", "match", "call", "mcall"):
        # macro-expanded logging: no effect on control flow
        yield (conds, [])
        return
    if k == "blockexpr":
        yield from paths_through(e["b"], conds)
        return
    if k == "block":
        items = [s for s in e["stmts"]] + ([{"s": "expr", "x": e["tail"]}] if "tail" in e else [])

        def rec(i, cs, eff):
            if i == len(items):
                yield (cs, eff)
                return
            s = items[i]
            x = s.get("x") if s.get("s") == "expr" else s.get("init") if s.get("s") == "let" else None
            if x is None:
                yield from rec(i + 1, cs, eff)
                return
            for (c2, e2) in paths_through(x, cs):
                if any(t is not None and t[0] == "ret" for t in e2):
                    yield (c2, eff + e2)
                else:
                    yield from rec(i + 1, c2, eff + e2)
        yield from rec(0, conds, [])
        return
    if k == "if":
        c = e["cond"]
        yield from paths_through(e["then"], conds + ((c, True),))
        if "else" in e:
            yield from paths_through(e["else"], conds + ((c, False),))
        else:
            yield (conds + ((c, False),), [])
        return
    if k == "assign":
        l = local_of(e["l"])
        yield (conds, [("assign", l, e["r"])] if l is not None else [None])
        return
    if k == "ret":
        yield (conds, [("ret", e.get("x"))])
        return
    if k in ("match", "loop"):
        if any(n.get("e") in ("assign", "ret") for n in walk(e)):
            yield (conds, [None])
        else:
            yield (conds, [])
        return
    yield (conds, [])


def cond_is_internal(c):
    """(is_internal_call_present, negated) for `ce.ident.is_internal()` / `!ce.ident.is_internal()`"""
    neg = False
    c = unwrap(c)
    while c.get("e") == "un" and c.get("op") == "Not":
        neg = not neg
        c = unwrap(c["x"])
    if c.get("e") == "mcall" and ends(callee_of(c), "Identity::is_internal") and has_token(tokens(c["recv"]), "field", "ident"):
        return True, neg
    return False, False


def check_create_range(ctx):
    rule = "K3-system-range"
    rec = hook_fn(ctx, "base", "Base", "pre_create_transform")
    fn = rec["fn"]
    body = rec["body"]
    DYN = "DYNAMIC_RANGE_MINIMUM_UUID"
    guards = []
    for n in walk(body, into_closures=False):
        if n.get("e") == "if" and not n.get("exp"):
            c = unwrap(n["cond"])
            if c.get("e") == "bin" and has_token(tokens(c), "def", DYN):
                guards.append(n)
    if not ctx.check(len(guards) >= 1, rule, fn, "range-test-found", f"{len(guards)} test(s) against DYNAMIC_RANGE_MINIMUM_UUID",
                     "Base::pre_create_transform no longer compares the candidate uuid with DYNAMIC_RANGE_MINIMUM_UUID — "
                     "a user could create an entry in the system uuid range", file=rec["file"], line=rec["line"]):
        return
    binds = pc.collect_binds(body)
    flags = set()
    for g in guards:
        c = unwrap(g["cond"])
        lhs_l, rhs_l = local_of(c["l"]), local_of(c["r"])
        good_cmp = (c["op"] in ("<", "<=") and lhs_l is not None and has_token(tokens(c["r"]), "def", DYN)) or \
                   (c["op"] in (">", ">=") and rhs_l is not None and has_token(tokens(c["l"]), "def", DYN))
        u = lhs_l if lhs_l is not None else rhs_l
        init = binds.get(u)
        from_entry = init is not None and has_token(tokens(init), "call", "get_ava_single_uuid") and has_token(tokens(init), "def", ATTR_UUID)
        ctx.check(good_cmp and from_entry, rule, fn, "range-test-shape", "entry uuid < DYNAMIC_RANGE_MINIMUM_UUID",
                  f"the comparison with DYNAMIC_RANGE_MINIMUM_UUID is not `<entry uuid attribute> < DYNAMIC_RANGE_MINIMUM_UUID` "
                  f"(found {ex_s(c)}) — the protected range test no longer covers uuids below the dynamic range",
                  file=rec["file"], line=g.get("line"))
        n_paths = 0
        for (conds, eff) in paths_through(g["then"]):
            n_paths += 1
            internal = False
            for (cx, pol) in conds:
                has, neg = cond_is_internal(cx)
                if has and (pol != neg):
                    internal = True
            rejecting = False
            understood = all(t is not None for t in eff)
            for t in eff:
                if t is None:
                    continue
                if t[0] == "assign" and is_lit_bool(t[2], True):
                    flags.add(t[1])
                    rejecting = True
                if t[0] == "ret" and t[1] is not None and is_err(t[1]):
                    rejecting = True
            key = "internal" if internal else ("rejected" if rejecting else "unguarded")
            ctx.check(understood and (internal or rejecting), rule, fn, f"below-range-path:{key}",
                      f"path below the dynamic range is {key}",
                      "a path through the `uuid < DYNAMIC_RANGE_MINIMUM_UUID` branch of Base::pre_create_transform is neither under "
                      "`ce.ident.is_internal()` nor raises the rejection flag / returns Err"
                      + ("" if understood else " (shape not understood)")
                      + f" [conditions: {[('' if p else 'not ') + ex_s(c) for c, p in conds]}] — a non-internal request could create a system-range uuid",
                      file=rec["file"], line=g.get("line"))
        ctx.floor(rule, "paths through the below-range branch", n_paths, 2)
    # flag discipline
    for fl_ in flags:
        decl_ok, cleared = False, False
        for n in walk(body):
            if n.get("s") == "let" and n["pat"].get("p") == "bind" and n["pat"].get("local") == fl_:
                decl_ok = "init" in n and is_lit_bool(n["init"], False)
            if n.get("e") in ("assign", "assignop") and local_of(n["l"]) == fl_ and not is_lit_bool(n.get("r"), True):
                cleared = True
        ctx.check(decl_ok and not cleared, rule, fn, "flag-monotone", "rejection flag starts false and is only ever set to true",
                  "the rejection flag raised for system-range uuids is re-assigned somewhere to a value other than `true` (or is not initialised to false): "
                  "a later candidate could clear an earlier rejection", file=rec["file"], line=rec["line"])
    if flags:
        # every Ok exit is behind `if flag { return Err }`
        def is_ok_sink(n):
            return n.get("e") == "call" and ends(n.get("ctor") or "", "core::result::Result::Ok") and not n.get("exp")
        sinks = pc.site_conditions(body, is_ok_sink)
        n_ok = 0
        for (s, conds) in sinks:
            if any(f == pc.FALSE for f in conds):
                continue
            lits = pc.implied(conds, binds)
            guarded = all(any((not p) and leaf[1] == "expr" and local_of(leaf[2]) == fl_ for (p, leaf) in lits.values()) for fl_ in flags)
            n_ok += 1
            ctx.check(guarded, rule, fn, "ok-exit-behind-flag-test", "Ok exit is after `if flag { return Err }`",
                      "Base::pre_create_transform can return Ok without having tested the system-range rejection flag "
                      "(`if system_range_invalid { return Err }` does not dominate this exit)", file=rec["file"], line=s.get("line"))
            # and the flag test itself returns Err
        for fl_ in flags:
            tests = [n for n in walk(body, into_closures=False) if n.get("e") == "if" and local_of(n["cond"]) == fl_]
            ctx.check(bool(tests) and all(all(is_err(l) for l in leaves(t["then"])) for t in tests), rule, fn, "flag-test=>Err",
                      "if flag => return Err", "the test of the rejection flag does not return Err", file=rec["file"], line=rec["line"])
        ctx.floor(rule, "Ok exits of Base::pre_create_transform", n_ok, 1)


# ---------------------------------------------------------------------------------------------------------------------
# (d) protected_filter_entry, (e) apply_*_access

def anon_compare(leaf_expr):
    """a `x <= UUID_ANONYMOUS` (or flipped) comparison inside expr"""
    for n in walk(leaf_expr, into_closures=False):
        if n.get("e") == "bin":
            if n["op"] == "<=" and has_token(tokens(n["r"]), "def", "UUID_ANONYMOUS"):
                return n
            if n["op"] == ">=" and has_token(tokens(n["l"]), "def", "UUID_ANONYMOUS"):
                return n
    return None


def check_protected(ctx, mod, result_enum):
    rule = "K3-builtin-protected"
    rec = ctx.fn(LIB, f"kanidmd_lib::server::access::{mod}::protected_filter_entry")
    fn = rec["fn"]
    m = None
    for n in walk(rec["body"], into_closures=False):
        if n.get("e") == "match" and n.get("src") == "Normal" and "IdentType" in n.get("scrut_ty", ""):
            m = n
            break
    if not ctx.check(m is not None, rule, fn, "origin-table-found", "match over ident.origin",
                     "protected_filter_entry is no longer a match over IdentType (shape not understood)", file=rec["file"], line=rec["line"]):
        return
    binds = pc.collect_binds(rec["body"])
    IRES = f"kanidmd_lib::server::access::{mod}::IResult"
    for origin, needle in (("User", "IdentType::User"), ("Migration", "IdentType::Internal(InternalRole::Migration)")):
        arms = [a for a in m["arms"] if any(alt == needle or alt.startswith(needle + "(") or alt == needle + "(_)" for alt in pat_alternatives(a["pat"]))]
        if not arms:
            arms = [a for a in m["arms"] if pc.is_catch_all(a["pat"])]
        if not ctx.check(bool(arms), rule, fn, f"arm:{origin}", f"arm for {origin}",
                         f"no arm of the origin table covers {needle} (shape not understood)", file=rec["file"], line=m.get("line")):
            continue
        for a in arms:
            def is_sink(n, _ires=IRES):
                d = def_of(n)
                return bool(d) and d.startswith(_ires + "::") and not d.endswith("::Deny") and n.get("e") in ("path", "call", "struct")
            sinks = pc.site_conditions(a["body"], is_sink)
            ctx.check(len(sinks) >= 1, rule, fn, f"{origin}:non-deny-results", f"{len(sinks)} non-Deny result site(s)",
                      f"no non-Deny result found in the {origin} arm (shape not understood)", file=rec["file"], line=a["body"].get("line"))
            for si, (s, conds) in enumerate(sinks):
                ok = False
                lits = pc.implied(conds, binds)
                for (p, leaf) in lits.values():
                    if not p and leaf[1] == "expr":
                        cmp_ = anon_compare(leaf[2])
                        if cmp_ is not None and uuid_operand_ok(cmp_, binds, None):
                            ok = True
                for conj in pc.blocked(conds):
                    if all(p for (p, _) in conj):
                        cmps = [anon_compare(l[2]) for (_, l) in conj if l[1] == "expr"]
                        cmps = [c for c in cmps if c is not None]
                        lets = [l for (_, l) in conj if l[1] == "let"]
                        others = [l for (_, l) in conj if l[1] not in ("let", "expr")]
                        if len(cmps) == 1 and not others and len([l for (_, l) in conj if l[1] == "expr"]) == 1 \
                                and all(has_token(tokens(l[2][1]), "call", "get_uuid") for l in lets) and uuid_operand_ok(cmps[0], binds, lets):
                            ok = True
                ctx.check(ok, rule, fn, f"{origin}:{short(def_of(s), 1)}#{si + 1}-behind-anonymous-test",
                          f"{short(def_of(s), 2)} only when not (uuid <= UUID_ANONYMOUS)",
                          f"{mod}::protected_filter_entry can return {short(def_of(s), 2)} for origin {origin} without `entry uuid <= UUID_ANONYMOUS => Deny` "
                          f"having been evaluated on that path — a built-in entry (uuid up to and including UUID_ANONYMOUS) is no longer "
                          f"protected from {mod} regardless of access controls", file=rec["file"], line=s.get("line"))
        # the guarded branch really denies
        tests = []
        for a in arms:
            for n in walk(a["body"], into_closures=False):
                if n.get("e") == "if" and not n.get("exp") and anon_compare(n["cond"]) is not None and unwrap(n["cond"]).get("e") == "bin":
                    tests.append(n)
        def denies(e):
            e = unwrap(e)
            if e.get("e") == "ret":
                return "x" in e and denies(e["x"])
            return def_of(e) == IRES + "::Deny"
        ctx.check(bool(tests) and all(all(denies(l) for l in leaves(t["then"])) for t in tests), rule, fn, f"{origin}:anonymous-test=>Deny",
                  "uuid <= UUID_ANONYMOUS => IResult::Deny",
                  (f"the `uuid <= UUID_ANONYMOUS` branch for origin {origin} does not evaluate to IResult::Deny" if tests else
                   f"no `if <entry uuid> <= UUID_ANONYMOUS` test found in the {origin} arm of {mod}::protected_filter_entry"),
                  file=rec["file"], line=m.get("line"))

    # (e) Deny dominates in apply_<mod>_access
    rule = "K4-deny-dominates"
    ap = ctx.fn(LIB, f"kanidmd_lib::server::access::{mod}::apply_{mod}_access")
    afn = ap["fn"]
    flag = None
    for n in walk(ap["body"], into_closures=False):
        if n.get("e") == "match" and n.get("src") == "Normal":
            sc = unwrap(n["scrut"])
            if sc.get("e") == "call" and callee_of(sc) == fn:
                for a in n["arms"]:
                    if any(alt == "IResult::Deny" for alt in pat_alternatives(a["pat"])):
                        b = unwrap(a["body"])
                        if b.get("e") == "assign" and is_lit_bool(b["r"], True):
                            flag = local_of(b["l"])
                    elif pc.is_catch_all(a["pat"]):
                        pass
    if not ctx.check(flag is not None, rule, afn, "deny-raises-flag", "protected_filter_entry(..) == Deny => denied = true",
                     f"apply_{mod}_access no longer turns a Deny of protected_filter_entry into the denied flag (shape not understood or protection dropped)",
                     file=ap["file"], line=ap["line"]):
        return
    decl_ok, cleared = False, False
    for n in walk(ap["body"]):
        if n.get("s") == "let" and n["pat"].get("p") == "bind" and n["pat"].get("local") == flag:
            decl_ok = "init" in n and is_lit_bool(n["init"], False)
        if n.get("e") in ("assign", "assignop") and local_of(n["l"]) == flag and not is_lit_bool(n.get("r"), True):
            cleared = True
    ctx.check(decl_ok and not cleared, rule, afn, "flag-monotone", "denied starts false and is only ever set to true",
              f"the denied flag of apply_{mod}_access is cleared or re-assigned: a later grant could undo the protection", file=ap["file"], line=ap["line"])
    RES = f"kanidmd_lib::server::access::{mod}::{result_enum}"
    binds = pc.collect_binds(ap["body"])

    def is_res(n):
        d = def_of(n)
        return bool(d) and d.startswith(RES + "::") and not d.endswith("::Deny") and n.get("e") in ("path", "call", "struct")
    sinks = pc.site_conditions(ap["body"], is_res)
    ctx.floor(rule, f"non-Deny results of apply_{mod}_access", len(sinks), 1)
    for (s, conds) in sinks:
        lits = pc.implied(conds, binds)
        ok = any((not p) and leaf[1] == "expr" and local_of(leaf[2]) == flag for (p, leaf) in lits.values())
        ctx.check(ok, rule, afn, f"{short(def_of(s), 1)}-only-if-not-denied", f"{short(def_of(s), 2)} under `not denied`",
                  f"apply_{mod}_access can return {short(def_of(s), 2)} although the denied flag is set: a grant would override the "
                  f"protection of built-in entries", file=ap["file"], line=s.get("line"))


def uuid_operand_ok(cmp_, binds, lets):
    """the compared operand is the entry's uuid: a call of get_uuid, a local bound from it, or the binding of `let Some(x) = ..get_uuid()`"""
    side = cmp_["l"] if cmp_["op"] == "<=" else cmp_["r"]
    if has_token(tokens(side), "call", "get_uuid"):
        return True
    l = local_of(side)
    if l is None:
        return False
    if l in binds and has_token(tokens(binds[l]), "call", "get_uuid"):
        return True
    for lt in (lets or []):
        pat, init = lt[2]
        if has_token(tokens(init), "call", "get_uuid") and any(n.get("p") == "bind" and n.get("local") == l for n in walk(pat)):
            return True
    if lets is None:
        return True if l is not None and l not in binds else False
    return False


def run(ctx):
    F = ctx.facts
    ctx.explanation = ("(a) Base first (own hook, propagated) in run_pre_create_transform/run_pre_modify/run_pre_batch_modify and operations run them "
                       "before the write; (b) Base::pre_modify/pre_batch_modify map every Modify variant except Assert to the uuid test over all "
                       "modifications and agree; (c) below DYNAMIC_RANGE_MINIMUM_UUID only ce.ident.is_internal() avoids rejection and every Ok exit is "
                       "behind the flag test; (d) create/delete protected_filter_entry: non-Deny results for User/Migration only when not "
                       "uuid <= UUID_ANONYMOUS; (e) Deny raises a monotone flag that gates every non-Deny result of apply_create_access/apply_delete_access.")
    P = Pipelines(ctx)
    for r in PRE:
        P.contains("K2-contains", r, "Base", "uuid immutability / system range checks do not run on this write path")
        P.first("K2-order", r, "Base", "plugins that run earlier would act on candidates whose uuid was not yet vetted")
    P.check_registries("K2-propagated", PRE, {"Base"})
    P.check_ops("K2-op", PRE, need_post=False)

    # (b)
    en = F.item(LIB, "enum", MODIFY)
    vs = [v["v"] for v in en["variants"]] if en else []
    ctx.floor("K4-uuid-immutable", "Modify variants", len(vs), 5)
    # attribute-bearing = first field is the Attribute the modification targets; Assert only compares, it never changes the entry
    need = [v["v"] for v in (en["variants"] if en else []) if v["v"] != "Assert" and v["fields"] and v["fields"][0]["ty"].endswith("attribute::Attribute")]
    ctx.floor("K4-uuid-immutable", "attribute-bearing Modify variants", len(need), 4)
    pm = hook_fn(ctx, "base", "Base", "pre_modify")
    pb = hook_fn(ctx, "base", "Base", "pre_batch_modify")
    a = modify_table(ctx, pm, "modlist", need)
    b = modify_table(ctx, pb, "modset", need)
    if a is not None and b is not None:
        ctx.check(a == b, "K4-uuid-immutable", pb["fn"], "siblings-agree", f"pre_modify and pre_batch_modify test the same variants {sorted(a)}",
                  f"Base::pre_modify tests {sorted(a)} but Base::pre_batch_modify tests {sorted(b)}: the two modify flavours disagree on which "
                  f"modification kinds may touch uuid", file=pb["file"], line=pb["line"])
    # (c)
    check_create_range(ctx)
    # (d) (e)
    check_protected(ctx, "create", "CreateResult")
    check_protected(ctx, "delete", "DeleteResult")
