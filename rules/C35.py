"""C35 Account policy resolution is order-independent and strictest — K4 over ResolvedAccountPolicy::fold_from.

The accumulator is the local initialised with the ResolvedAccountPolicy struct literal; the fold body is the closure
given to Iterator::for_each/fold (or a `for` loop body). For every *strictness* field of the table below every update
site `acc.f = rhs` inside the fold is extracted together with its path condition (K3) and classified:

   min   guarded:  rhs is new.f and the site is under  new.f <|<= acc.f   (any spelling: flipped operands, negated)
         or rhs is  min(acc.f, new.f)  (Ord::min / cmp::min)
   max   the mirror image with > / max
   isect the only mutation of an existing list is AttestationCaList::intersection(acc-list, new-list); a plain
         assignment is allowed only where acc.f is None (first list adopted)
   and   rhs leaves are Some(new && acc) where acc.f is Some(acc), Some(new) where acc.f is None; no `||`
 min / max / ∩ / ∧ are commutative, associative and idempotent, hence order independence and "at least as strict as each".
          (the accumulator's start values are recorded as notes only: no start value can break the two claims)
 K4-sfa   after the fold (not inside it) acc.pw_min_length is raised to PW_SFA_MIN_LENGTH_NIST under no other
          condition than acc.credential_policy < CredentialType::Mfa (and the "only raise" comparison).
Fields outside the table (search limits, new fields) are not judged. A table field that disappears, or has no update
site, fails closed.
 K5-policy-fields  each AccountPolicy field is parsed from its own attribute; K5-policy-source  the fold's input derives from memberof and is not shortened.
Not decided: that callers pass every group's policy into the iterator; defaults chosen in From<&Entry>.
"""
from .lib.hir import *
from .lib import pathcond as pc
from .lib.x_g7util import *

META = dict(
    technique="static extraction of the per-field update template of the policy fold (guarded assignment / min / max / intersection / &&) with its path condition",
    level_text="Every strictness field of the resolved account policy is updated inside the fold only by min (expiries), max (password length, credential "
               "type), set intersection (attestation CA list) or conjunction (credential fallback) of the accumulator and the incoming policy — operations "
               "that are commutative, associative and idempotent — and the single-factor minimum length is applied after the fold under exactly the "
               "'second factor optional' condition. This covers every multiset and order of group policies; the one existing test folds a fixed pair.",
    level_note="Decides the algebraic shape of each strictness field's update and the placement/guard of the single-factor minimum. Not decided: that all of an "
               "account's group policies reach the iterator, the per-entry defaults, integer overflow (none: no arithmetic). Trusted: rustc facts, the field table.",
)

LIB = "kanidmd_lib"
FOLD = "kanidmd_lib::idm::accountpolicy::ResolvedAccountPolicy::fold_from"
RAP = "kanidmd_lib::idm::accountpolicy::ResolvedAccountPolicy"
AP = "kanidmd_lib::idm::accountpolicy::AccountPolicy"

TABLE = {
    "privilege_expiry": "min",
    "authsession_expiry": "min",
    "pw_min_length": "max",
    "credential_policy": "max",
    "webauthn_att_ca_list": "isect",
    "allow_primary_cred_fallback": "and",
}
WHY = {
    "min": "the resolved expiry must be the smallest of all groups' values",
    "max": "the resolved minimum must be the largest of all groups' values",
    "isect": "only attestation authorities trusted by every group may be trusted",
    "and": "fallback to the primary credential is allowed only if every group that states it allows it",
}
NEG = {"<": ">=", "<=": ">", ">": "<=", ">=": "<"}
FLIP = {"<": ">", "<=": ">=", ">": "<", ">=": "<="}


class Fold:
    def __init__(self, fnrec):
        self.fn = fnrec
        self.body = fnrec["body"]
        self.acc = None
        self.acc_init = None
        self.binds = pc.collect_binds(self.body)
        self.src = {}       # pattern-bound local -> source expression (if-let init / match scrutinee / let init)
        for n in walk(self.body):
            if n.get("e") == "let" or (n.get("s") == "let" and "init" in n):
                for (l, _) in pat_binds(n["pat"]):
                    self.src.setdefault(l, n["init"])
            elif n.get("e") == "match" and n.get("src") == "Normal":
                for a in n["arms"]:
                    for (l, _) in pat_binds(a["pat"]):
                        self.src.setdefault(l, n["scrut"])

    def classify(self, e, field, depth=4):
        """'ACC' when e is acc.<field> (possibly through as_mut()/clone()/a pattern binding), 'NEW' when it is <other local>.<field>."""
        e = unwrap(e)
        if not isinstance(e, dict) or depth < 0:
            return None
        if e.get("e") == "mcall" and not e["args"]:
            return self.classify(e["recv"], field, depth)
        if e.get("e") == "call" and ends(e.get("ctor") or "", "core::option::Option::Some") and e["args"]:
            return self.classify(e["args"][0], field, depth)
        if e.get("e") == "field" and e["f"] == field:
            l = local_of(e["x"])
            if l is None:
                return None
            return "ACC" if l == self.acc else "NEW"
        l = local_of(e)
        if l is not None:
            if l in self.src:
                return self.classify(self.src[l], field, depth - 1)
            if l in self.binds:
                return self.classify(self.binds[l], field, depth - 1)
        return None

    def is_acc_field(self, e, field=None):
        e = unwrap(e)
        return isinstance(e, dict) and e.get("e") == "field" and local_of(e["x"]) == self.acc and (field is None or e["f"] == field)


def rel_of(fold, pol, leaf, field):
    """Normalise an implied comparison literal to 'NEW.f REL ACC.f' -> REL, or None."""
    if leaf[1] != "expr":
        return None
    e = unwrap(leaf[2])
    if e.get("e") != "bin" or e["op"] not in NEG:
        return None
    cl, cr = fold.classify(e["l"], field), fold.classify(e["r"], field)
    op = e["op"]
    if (cl, cr) == ("ACC", "NEW"):
        op = FLIP[op]
    elif (cl, cr) != ("NEW", "ACC"):
        return None
    if not pol:
        op = NEG[op]
    return op


def minmax_call(fold, e, field):
    """'min' / 'max' when e is min/max of {acc.f, new.f}, else None."""
    e = unwrap(e)
    if not isinstance(e, dict):
        return None
    for kind in ("min", "max"):
        if e.get("e") == "mcall" and is_call_to(e, "core::cmp::Ord::" + kind) and len(e["args"]) == 1:
            ops = {fold.classify(e["recv"], field), fold.classify(e["args"][0], field)}
        elif e.get("e") == "call" and is_call_to(e, "core::cmp::" + kind) and len(e["args"]) == 2:
            ops = {fold.classify(e["args"][0], field), fold.classify(e["args"][1], field)}
        else:
            continue
        if ops == {"ACC", "NEW"}:
            return kind
    return None


def run(ctx):
    _run_main(ctx)
    policy_fields_parsed_from_their_attributes(ctx)
    every_group_policy_reaches_the_fold(ctx)


def _run_main(ctx):
    F = ctx.facts
    ctx.explanation = ("K4 on ResolvedAccountPolicy::fold_from: per strictness field the update inside the fold is min / max / intersection / && of the accumulator "
                       "and the incoming policy (direction checked against a table keyed by field name), and the "
                       "single-factor minimum is applied after the fold under the second-factor-optional condition only.")
    f = ctx.fn(LIB, FOLD)
    fold = Fold(f)
    rap = F.item(LIB, "struct", RAP)
    ap = F.item(LIB, "struct", AP)
    if not ctx.check(rap is not None and ap is not None, "anchor", FOLD, "structs-found", "", "struct ResolvedAccountPolicy / AccountPolicy not found"):
        return
    rap_fields = [x["f"] for x in rap["variants"][0]["fields"]]
    ap_fields = [x["f"] for x in ap["variants"][0]["fields"]]
    for fld in TABLE:
        ctx.check(fld in rap_fields and fld in ap_fields, "K4-fields", FOLD, f"field-exists:{fld}", "field present in both structs",
                  f"strictness field `{fld}` is missing from {'ResolvedAccountPolicy' if fld not in rap_fields else 'AccountPolicy'}: the rule table no longer matches the policy "
                  f"(renamed or removed field — the strictness of that setting is undecided)", file=f["file"], line=f["line"])

    # ---- accumulator -------------------------------------------------------------------------------
    for n in uwalk(f["body"]):
        if n.get("s") == "let" and "init" in n and n["pat"].get("p") == "bind":
            init = unwrap(n["init"])
            if init.get("e") == "struct" and init["path"].get("def") == RAP:
                fold.acc, fold.acc_init = n["pat"]["local"], init
                break
    if not ctx.check(fold.acc is not None, "K4-shape", FOLD, "accumulator-found", "accumulator local found",
                     "no local initialised with a ResolvedAccountPolicy struct literal: shape not understood", file=f["file"], line=f["line"]):
        return
    tails = tail_values(f["body"])
    ctx.check(len(tails) == 1 and local_of(tails[0]) == fold.acc, "K4-shape", FOLD, "returns-accumulator", "returns the accumulator",
              f"fold_from returns `{ex_s(tails[0])[:60] if tails else '?'}` rather than the accumulator: shape not understood", file=f["file"], line=f["line"])

    # ---- fold body ----------------------------------------------------------------------------------
    fold_nodes = None
    fold_stmt_idx = None
    top = unwrap(f["body"])
    top = top["b"] if top.get("e") == "blockexpr" else top
    for i, s in enumerate(top.get("stmts", [])):
        for n in walk(s):
            if n.get("e") == "mcall" and is_call_to(n, "Iterator::for_each", "Iterator::fold", "Iterator::try_for_each") and any(unwrap(a).get("e") == "closure" for a in n["args"]):
                fold_nodes = [unwrap(a) for a in n["args"] if unwrap(a).get("e") == "closure"][0]
            elif n.get("e") == "loop" and n.get("src") == "ForLoop":
                fold_nodes = n
            if fold_nodes is not None:
                break
        if fold_nodes is not None:
            fold_stmt_idx = i
            break
    if not ctx.check(fold_nodes is not None, "K4-shape", FOLD, "fold-body-found", "fold body found",
                     "no Iterator::for_each/fold closure or `for` loop as a top-level statement of fold_from: shape not understood", file=f["file"], line=f["line"]):
        return
    in_fold = {id(n) for n in walk(fold_nodes)}

    # ---- update sites ---------------------------------------------------------------------------------
    def lhs_field(n):
        """Table field written by an assignment: `acc.f = ..` or `*r = ..` with r a reference derived from acc.f."""
        if fold.is_acc_field(n["l"]):
            return unwrap(n["l"])["f"]
        for fld in TABLE:
            if fold.classify(n["l"], fld) == "ACC":
                return fld
        return None

    def is_update(n):
        if n.get("e") in ("assign", "assignop"):
            return lhs_field(n) is not None
        if n.get("e") == "mcall" and n["args"] and n.get("recv_ty", "").startswith("&mut"):
            # mutating method on (a reference derived from) an accumulator field
            for fld in TABLE:
                if fold.classify(n["recv"], fld) == "ACC":
                    return True
        return False

    sites = pc.site_conditions(f["body"], is_update)
    by_field = {}
    for (s, conds) in sites:
        if s.get("e") in ("assign", "assignop"):
            fld = lhs_field(s)
        else:
            fld = next(x for x in TABLE if fold.classify(s["recv"], x) == "ACC")
        by_field.setdefault(fld, []).append((s, conds))

    n_sites = 0
    for fld, kind in TABLE.items():
        inside = [(s, c) for (s, c) in by_field.get(fld, []) if id(s) in in_fold]
        if not ctx.check(len(inside) >= 1, "K4-fold", FOLD, f"updated:{fld}", f"{len(inside)} update site(s) in the fold",
                         f"`{fld}` is never updated inside the fold: groups' values for it are ignored, the resolved policy is not at least as strict as each ({WHY[kind]})",
                         file=f["file"], line=f["line"]):
            continue
        if kind == "isect":
            ctx.check(any(s.get("e") == "mcall" and is_call_to(s, "AttestationCaList::intersection") for (s, _) in inside), "K4-fold", FOLD, f"{fld}:intersects",
                      "an existing list is intersected with the incoming one",
                      f"`{fld}`: no AttestationCaList::intersection on the accumulated list inside the fold — lists after the first are ignored or replace it: {WHY[kind]}",
                      file=f["file"], line=f["line"])
        for (s, conds) in inside:
            n_sites += 1
            lits = pc.implied(conds, fold.binds)
            if kind in ("min", "max"):
                check_minmax(ctx, fold, fld, kind, s, lits)
            elif kind == "isect":
                check_isect(ctx, fold, fld, s, lits)
            else:
                check_and(ctx, fold, fld, s, lits)
    ctx.floor("K4-fold", "update sites of strictness fields inside the fold", n_sites, 7)

    # ---- initial values: informational only (any start value keeps the fold order-independent and at least as strict as each input) ----
    init = {fx["f"]: fx["x"] for fx in fold.acc_init["fields"]}
    for fld in TABLE:
        x = init.get(fld)
        d = def_of(unwrap(x)) if x else ""
        val = F.const_val(d.split("::")[0], d) if d else None
        ctx.notes.append(f"accumulator starts with {fld} = {ex_s(x) if x else '?'}" + (f" (= {val})" if val is not None else ""))
    # ---- K4-sfa -----------------------------------------------------------------------------------------
    outside = [(s, c) for (s, c) in by_field.get("pw_min_length", []) if id(s) not in in_fold and s.get("e") == "assign"]
    after = []
    for (s, c) in outside:
        for i, st in enumerate(top.get("stmts", [])):
            if any(n is s for n in walk(st)) and i > fold_stmt_idx:
                after.append((s, c))
    if ctx.check(len(after) >= 1, "K4-sfa", FOLD, "applied-after-fold", "pw_min_length raised after the fold",
                 "no assignment to the accumulator's pw_min_length after the fold: the single-factor minimum length is not enforced (or is applied per element, "
                 "where a later group could not be taken into account)", file=f["file"], line=f["line"]):
        SFA = "kanidm_lib_crypto::PW_SFA_MIN_LENGTH_NIST"
        for (s, conds) in after:
            rhs = unwrap(s["r"])
            is_const = def_of(rhs) == SFA
            is_max = False
            if not is_const and rhs.get("e") in ("mcall", "call") and is_call_to(rhs, "core::cmp::Ord::max", "core::cmp::max"):
                ops = ([rhs["recv"]] if rhs.get("e") == "mcall" else []) + rhs["args"]
                is_max = any(def_of(unwrap(o)) == SFA for o in ops) and any(fold.is_acc_field(o, "pw_min_length") for o in ops)
            ctx.check(is_const or is_max, "K4-sfa", FOLD, "value", "raised to PW_SFA_MIN_LENGTH_NIST",
                      f"after the fold pw_min_length is set to `{ex_s(rhs)[:80]}`, expected PW_SFA_MIN_LENGTH_NIST (or max(acc.pw_min_length, PW_SFA_MIN_LENGTH_NIST))",
                      file=f["file"], line=s.get("line"))
            full = holds_all(conds, fold.binds)
            djs = dnf(full)
            ok = len(djs) == 1
            has_cred = False
            has_raise = False
            extra = []
            for (pol, leaf) in (djs[0] if djs else []):
                e = unwrap(leaf[2]) if leaf[1] == "expr" else None
                good = False
                if e is not None and e.get("e") == "bin" and e["op"] in NEG:
                    op = e["op"] if pol else NEG[e["op"]]
                    l, r = unwrap(e["l"]), unwrap(e["r"])
                    if fold.is_acc_field(r) and not fold.is_acc_field(l):
                        l, r, op = r, l, FLIP[op]
                    if fold.is_acc_field(l, "credential_policy") and def_of(r) == "kanidmd_lib::value::CredentialType::Mfa" and op == "<":
                        has_cred = good = True
                    elif fold.is_acc_field(l, "pw_min_length") and def_of(r) == SFA and op in ("<", "<="):
                        has_raise = good = True
                if not good:
                    extra.append(("" if pol else "NOT ") + pc.leaf_key(leaf))
            ctx.check(ok and has_cred and not extra, "K4-sfa", FOLD, "guard", "guard is acc.credential_policy < Mfa (∧ only-raise)",
                      ("the single-factor minimum is applied under " + (f"additional condition(s) {extra[:3]}" if extra else "a condition that is not a single conjunction" if not ok
                       else "no `acc.credential_policy < CredentialType::Mfa` test")) +
                      "; it must apply exactly when second factors are optional (credential_policy < Mfa) — an extra or different condition lets a single-factor account keep a short minimum",
                      file=f["file"], line=s.get("line"))
            ctx.check(is_max or has_raise, "K4-sfa", FOLD, "only-raises", "never lowers a stricter minimum",
                      "pw_min_length is overwritten with the single-factor minimum without the `acc.pw_min_length < PW_SFA_MIN_LENGTH_NIST` test (or max()): a stricter group minimum is lowered",
                      file=f["file"], line=s.get("line"))
    sfa, mfa = F.const_val("kanidm_lib_crypto", "kanidm_lib_crypto::PW_SFA_MIN_LENGTH_NIST"), F.const_val("kanidm_lib_crypto", "kanidm_lib_crypto::PW_MFA_MIN_LENGTH")
    ctx.check(sfa is not None and mfa is not None and sfa >= mfa, "K4-sfa", FOLD, "const-order", f"PW_SFA_MIN_LENGTH_NIST={sfa} >= PW_MFA_MIN_LENGTH={mfa}",
              f"PW_SFA_MIN_LENGTH_NIST={sfa} is below PW_MFA_MIN_LENGTH={mfa}: the 'single-factor minimum' would not be the stricter one")
    ctx.exhaustive = True


def check_minmax(ctx, fold, fld, kind, s, lits):
    f = fold.fn
    want = ("<", "<=") if kind == "min" else (">", ">=")
    opname = "min" if kind == "min" else "max"
    inst = f"{fld}:{opname}"
    if s.get("e") != "assign":
        ctx.violation("K4-fold", FOLD, inst, f"`{fld}` is updated by `{ex_s(s)[:80]}` inside the fold; expected a guarded assignment or {opname}(): shape not understood",
                      file=f["file"], line=s.get("line"))
        return
    rhs = s["r"]
    mm = minmax_call(fold, rhs, fld)
    if mm is not None:
        ctx.check(mm == opname, "K4-fold", FOLD, inst, f"acc.{fld} = {mm}(acc.{fld}, new.{fld})",
                  f"`{fld}` is folded with {mm}() but must be folded with {opname}(): {WHY[kind]}", file=f["file"], line=s.get("line"))
        ctx.sample(f"{fld}: {mm}(acc, new)")
        return
    cls = fold.classify(rhs, fld)
    rels = sorted({r for (p, leaf) in lits.values() for r in [rel_of(fold, p, leaf, fld)] if r})
    ok = cls == "NEW" and len(rels) >= 1 and all(r in want for r in rels)
    if cls != "NEW":
        bad = f"`{fld}` is assigned `{ex_s(rhs)[:80]}` inside the fold, expected the incoming policy's `{fld}` (or {opname}(acc.{fld}, new.{fld}))"
    elif not rels:
        bad = (f"`{fld}` is overwritten with the incoming policy's value without a comparison against the accumulator (last group wins): "
               f"the result depends on group order; {WHY[kind]}")
    else:
        bad = (f"`{fld}` takes the incoming value when new.{fld} {'/'.join(rels)} acc.{fld}; the strict direction is new {want[0]} acc ({opname}): "
               f"{WHY[kind]} — this keeps the most permissive value instead")
    ctx.check(ok, "K4-fold", FOLD, inst, f"acc.{fld} = new.{fld} if new {'/'.join(rels)} acc", bad, file=f["file"], line=s.get("line"))
    ctx.sample(f"{fld}: if new {'/'.join(rels)} acc {{ acc = new }}")


def acc_is_none(fold, fld, lits):
    """The site is in the branch where acc.<fld> is None."""
    for (pol, leaf) in lits.values():
        if leaf[1] in ("let", "arm"):
            pat, src = (leaf[2][0], leaf[2][1]) if leaf[1] == "let" else (leaf[2][1], leaf[2][0])
            if fold.classify(src, fld) != "ACC":
                continue
            toks = tokens(pat)
            if pol and has_token(toks, "def", "core::option::Option::None"):
                return True
            if (not pol) and has_token(toks, "def", "core::option::Option::Some"):
                return True
        elif leaf[1] == "expr":
            e = unwrap(leaf[2])
            if e.get("e") == "mcall" and fold.classify(e["recv"], fld) == "ACC":
                if pol and is_call_to(e, "Option::<T>::is_none"):
                    return True
                if (not pol) and is_call_to(e, "Option::<T>::is_some"):
                    return True
    return False


def acc_is_some(fold, fld, lits):
    for (pol, leaf) in lits.values():
        if leaf[1] in ("let", "arm"):
            pat, src = (leaf[2][0], leaf[2][1]) if leaf[1] == "let" else (leaf[2][1], leaf[2][0])
            if fold.classify(src, fld) == "ACC" and pol and has_token(tokens(pat), "def", "core::option::Option::Some"):
                return True
    return False


def check_isect(ctx, fold, fld, s, lits):
    f = fold.fn
    if s.get("e") == "mcall":
        ok = is_call_to(s, "AttestationCaList::intersection") and fold.classify(s["args"][0], fld) == "NEW"
        ctx.check(ok, "K4-fold", FOLD, f"{fld}:intersection", "acc-list.intersection(new-list)",
                  f"the accumulated `{fld}` is mutated by `{ex_s(s)[:90]}`; the only allowed mutation is AttestationCaList::intersection with the incoming policy's list: {WHY['isect']}",
                  file=f["file"], line=s.get("line"))
        ctx.sample(f"{fld}: acc.intersection(new)")
        return
    # plain assignment: only where the accumulator has no list yet, and the value is the incoming list
    none = acc_is_none(fold, fld, lits)
    cls = fold.classify(s["r"], fld)
    ctx.check(none and cls == "NEW", "K4-fold", FOLD, f"{fld}:adopt-first", "adopted only when acc has none",
              f"`{fld}` is assigned `{ex_s(s['r'])[:60]}` " + ("where the accumulator may already hold a list (it is replaced, not intersected)" if not none else "which is not the incoming policy's list")
              + f": {WHY['isect']}", file=f["file"], line=s.get("line"))


def check_and(ctx, fold, fld, s, lits):
    f = fold.fn
    if s.get("e") != "assign":
        ctx.violation("K4-fold", FOLD, f"{fld}:and", f"`{fld}` is updated by `{ex_s(s)[:80]}`: shape not understood", file=f["file"], line=s.get("line"))
        return
    leaves = tail_values(s["r"])
    leaf_ids = {id(unwrap(l)) for l in leaves}
    subs = pc.site_conditions(s["r"], lambda n: id(n) in leaf_ids)
    sub_conds = {id(n): c for (n, c) in subs}
    good = True
    why = ""
    n_and = 0
    for l in leaves:
        lu = unwrap(l)
        l_lits = dict(lits)
        l_lits.update(pc.implied(sub_conds.get(id(lu), []), fold.binds))
        inner = unwrap(lu["args"][0]) if lu.get("e") == "call" and ends(lu.get("ctor") or "", "core::option::Option::Some") and lu["args"] else None
        if inner is None:
            good, why = False, f"a result `{ex_s(lu)[:60]}` that is not Some(..)"
            break
        if inner.get("e") == "bin" and inner["op"] == "&&":
            ops = {fold.classify(inner["l"], fld), fold.classify(inner["r"], fld)}
            if ops != {"ACC", "NEW"}:
                good, why = False, f"`{ex_s(inner)[:60]}` which does not combine the accumulated and the incoming value"
                break
            n_and += 1
        elif fold.classify(inner, fld) == "NEW" and local_of(inner) is not None or fold.classify(inner, fld) == "NEW":
            if not acc_is_none(fold, fld, l_lits):
                good, why = False, "the incoming value alone where the accumulator may already hold a value (last group wins)"
                break
        else:
            good, why = False, f"`{ex_s(inner)[:60]}` (expected `new && acc`)"
            break
    if good and n_and == 0 and not acc_is_none(fold, fld, lits):
        good, why = False, "no `new && acc` combination at all"
    ctx.check(good, "K4-fold", FOLD, f"{fld}:and", "Some(new && acc) | Some(new) when acc is None",
              f"`{fld}` is folded with {why}: {WHY['and']}", file=f["file"], line=s.get("line"))
    ctx.sample(f"{fld}: Some(new && acc) / Some(new) if acc is None")


# ---------------------------------------------------------------------------------------------------------------------
# fold_from combines the *parsed* group policies. Five of the eight fields are u32 / Option<u32>: a parser that reads
# privilege_expiry from auth_session_expiry (or one limit from the other) compiles, and the strictest-of-all fold then works
# on the wrong numbers (shared engine rules/lib/x_fields.py).

def policy_fields_parsed_from_their_attributes(ctx):
    from .lib.x_fields import check_field_sources
    fns = ctx.facts.find_fns(LIB, r"^kanidmd_lib::idm::accountpolicy::<impl core::convert::From<&entry::Entry<.*AccountPolicy>>::from$")
    if not ctx.check(len(fns) == 1, "K5-policy-fields", "kanidmd_lib::idm::accountpolicy", "parser-found", "AccountPolicy parser found",
                     f"expected exactly one From<&Entry> for Option<AccountPolicy>, found {len(fns)} (anchor drift)"):
        return
    n = check_field_sources(ctx, LIB, "K5-policy-fields", [(fns[0], "kanidmd_lib::idm::accountpolicy::AccountPolicy", {
        "privilege_expiry": {"PrivilegeExpiry"}, "authsession_expiry": {"AuthSessionExpiry"}, "pw_min_length": {"AuthPasswordMinimumLength"},
        "credential_policy": {"CredentialTypeMinimum"}, "webauthn_att_ca_list": {"WebauthnAttestationCaList"},
        "limit_search_max_filter_test": {"LimitSearchMaxFilterTest"}, "limit_search_max_results": {"LimitSearchMaxResults"},
        "allow_primary_cred_fallback": {"AllowPrimaryCredFallback"}})],
        "the resolved policy is then the strictest combination of the wrong settings")
    ctx.floor("K5-policy-fields", "policy fields traced to their attributes", n, 8)


# ---------------------------------------------------------------------------------------------------------------------
# "All of its groups' policies": load_account_policy must hand fold_from the policies of the groups in the account's
# transitive membership (memberof), not only the direct ones, and nothing between the search and the fold may drop a policy
# other than the Option<AccountPolicy> conversion itself.

def every_group_policy_reaches_the_fold(ctx):
    from .lib.x_fields import expr_sources
    R_ = "K5-policy-source"
    fn = ctx.fn(LIB, "kanidmd_lib::idm::group::load_account_policy")
    folds = calls_in(fn["body"], "ResolvedAccountPolicy::fold_from")
    if not ctx.check(len(folds) == 1 and len(folds[0].get("args", [])) == 1, R_, fn["fn"], "folds-once", "one call of fold_from",
                     f"load_account_policy calls fold_from {len(folds)} times (shape not understood)", file=fn["file"], line=fn["line"]):
        return
    srcs = {x for x in expr_sources(fn["body"], folds[0]["args"][0]) if x.startswith("attr:")}
    ctx.check("attr:MemberOf" in srcs and "attr:DirectMemberOf" not in srcs, R_, fn["fn"], "groups-from:MemberOf",
              f"policy groups selected through {sorted(srcs)}",
              f"the groups whose policies are folded are selected through {sorted(srcs)}, not through the account's memberof: policies of groups the account "
              "belongs to only through another group are dropped and the resolved policy is weaker than one of its groups' policies",
              file=fn["file"], line=folds[0].get("line"))
    # between the search result and the fold only the AccountPolicy conversion may drop elements
    arg = folds[0]["args"][0]
    bad = [c for c in all_calls(arg, into_closures=False) if c.get("e") == "mcall" and c.get("name") in
           ("filter", "take", "skip", "take_while", "skip_while", "step_by", "nth", "last", "next", "find", "rev_take")]
    ctx.check(not bad, R_, fn["fn"], "no-shrinking-adapter", "no filter/take/skip between the search and the fold",
              f"the iterator handed to fold_from is shortened by {[c.get('name') for c in bad]} — some group policies never reach the fold",
              file=fn["file"], line=folds[0].get("line"))
