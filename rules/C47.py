"""C47 Stopping a supervisor stops everything under it — clause: ordering / dominance inside each task body (K6).

Decided (DESIGN.md C47), per body, on type-checked HIR (tokio::select! expansions are looked through: user code is the
nodes without the macro-expansion flag; `.await` is the AwaitDesugar match whose operand is kept in order):
 K6-actor-cleanup   SupervisedActor::run: the actor's main `loop` (the one polling parent_ctrl_rx.recv()) is followed, on
                    normal completion, by an *awaited* Actor::cleanup(); the body has no `return` (outside nested closures),
                    no labelled break, and run borrows `&mut self`, touching parent_ctrl_rx only through Receiver::recv — so the
                    receiver (whose drop the supervisor waits for) outlives cleanup; Supervisor::spawn's task awaits
                    SupervisedActor::run on the value that owns the receiver;
 K6-task-stop       SupervisorTask::run: after its loop it calls ctrl_tx.send(()) and then awaits ctrl_tx.closed(), with no
                    `return` in the body; Supervisor::build's task constructs SupervisorTask{mbox_rx, ..} and awaits run (so
                    mbox_rx is dropped only after run returned);
 K6-stop-waits      Supervisor::stop: awaits mbox_tx.send(SupervisorMessage::Stop) and then awaits mbox_tx.closed(), no `return`
                    before it;
 K6-subscribe-first Supervisor::spawn is not async and calls ctrl_tx.subscribe() before tokio::spawn, outside the spawned
                    future, passing that receiver to the supervised actor; Supervisor::subordinate subscribes before
                    Supervisor::build (which is not async and spawns), with no await in between;
 K6-exec            Runtime::exec: after its loop it sends on the primary control channel and awaits the primary supervisor.
NOT decided: task interleavings / scheduling (e.g. a message racing the stop broadcast, lagged broadcast receivers,
cancellation of a future inside select!), tokio's channel semantics (`closed()` resolves when every receiver is dropped),
panics inside an actor step, termination of each actor step (assumed by the property).
"""
from .lib.hir import *
from .lib import pathcond as pc
from .lib.x_sinks import (real_root, fn_root, is_async, ancestors, uncond_nodes, calls_before, preceding_stmts, prov_binds, deep_tokens,
                          local_id, pat_bound_locals, _awaited, loc)

META = dict(
    technique="static order/dominance analysis (K6) of the supervisor and actor task bodies on type-checked HIR (select!/await desugarings looked through)",
    level_text="For each of the five task bodies the compiler's HIR shows, on every control path of that body, the required order: cleanup is awaited after the actor loop "
               "on every exit and before the receiver can be dropped; the supervisor task broadcasts stop and awaits closure of its control channel before returning; "
               "stop() awaits closure of the mailbox; subscription happens synchronously before the task is spawned. This is the per-body part of the property and holds "
               "for all schedules; the two existing tests run one tree under the default scheduler.",
    level_note="Clause only: decides per-body ordering/dominance (no return skipping cleanup, stop broadcast + wait before returning, subscribe before spawn). Interleavings are NOT decided: "
               "nothing is claimed about races between messages and the stop broadcast, lagging receivers, future cancellation inside select!, panics, or tokio's channel semantics "
               "(trusted: closed() resolves once every receiver is dropped). Trusted: rustc facts, the rule tables.",
)

CR = "kanidm_actors"
A = "kanidm_actors::"


def following(root, target):
    """Statements / tail expressions evaluated after `target` completes normally (every enclosing block's remainder, inner first)."""
    path = ancestors(root, target) or []
    out = []
    for i in range(len(path) - 2, -1, -1):
        n = path[i]
        if n.get("e") == "block":
            child = path[i + 1]
            seen = False
            for s in n["stmts"]:
                if seen:
                    out.append(s)
                if s is child:
                    seen = True
            if "tail" in n and n["tail"] is not child:
                out.append(n["tail"])
    return out


def seq_calls(stmts):
    """[(call node, awaited?)] certainly executed, in order, when the statements run to completion."""
    out = []
    for s in stmts:
        nodes = list(uncond_nodes(s))
        awaited = set()
        for n in nodes:
            x = _awaited(n)
            if x is not None and isinstance(x, dict):
                awaited.add(id(x))
        for n in nodes:
            if n.get("e") in ("call", "mcall") and not n.get("exp"):
                out.append((n, id(n) in awaited))
    return out


def on_field(n, field):
    """mcall whose receiver is <something>.<field>"""
    r = unwrap(n.get("recv", {}))
    return isinstance(r, dict) and r.get("e") == "field" and r.get("f") == field


def user_loops(root):
    return [n for n in walk(root, into_closures=False) if n.get("e") == "loop" and not n.get("exp") and n.get("src") == "Loop"]


def main_loop(root, *recv_fields):
    """The user loop that polls <field>.recv() of one of the control receivers."""
    for lp in user_loops(root):
        for n in walk(lp):
            if n.get("e") == "mcall" and ends(callee_of(n), "broadcast::Receiver::<T>::recv") and any(on_field(n, f) for f in recv_fields):
                return lp
    return None


def rets(root):
    return [n for n in walk(root, into_closures=False) if n.get("e") == "ret"]


def labelled_breaks(root):
    return [n for n in walk(root, into_closures=False) if n.get("e") in ("break", "continue") and n.get("label") and not n.get("exp")]


def spawned_closures(root):
    """Closures passed to tokio::spawn / task::spawn."""
    out = []
    for c in all_calls(root):
        if ends(callee_of(c), "tokio::task::spawn::spawn", "task::spawn::spawn"):
            for a in c.get("args", []):
                a = unwrap(a)
                if a.get("e") == "closure":
                    out.append((c, a))
    return out


def run(ctx):
    F = ctx.facts
    ctx.explanation = ("K6 per-body ordering: actor cleanup awaited after the loop on every exit and before the receiver can be dropped; supervisor task broadcasts stop and awaits "
                       "ctrl_tx.closed() before returning; Supervisor::stop awaits mbox_tx.closed(); spawn/subordinate subscribe synchronously before spawning. "
                       "Interleavings and tokio channel semantics are NOT decided.")
    ctx.notes.append("interleavings NOT decided: the check is per task body (structured dominance), not a model of the scheduler")
    arun = ctx.fn1(CR, r"^kanidm_actors::SupervisedActor::<\w+>::run$")
    trun = ctx.fn(CR, A + "SupervisorTask::run")
    stop = ctx.fn(CR, A + "Supervisor::stop")
    spawn = ctx.fn(CR, A + "Supervisor::spawn")
    sub = ctx.fn(CR, A + "Supervisor::subordinate")
    build = ctx.fn(CR, A + "Supervisor::build")
    rexec = ctx.fn(CR, A + "Runtime::exec")

    # ---- K6-actor-cleanup -----------------------------------------------------------
    root = real_root(arun)
    lp = main_loop(root, "parent_ctrl_rx")
    if ctx.check(lp is not None, "K6-actor-cleanup", arun["fn"], "main-loop", "loop polling parent_ctrl_rx.recv() found",
                 "SupervisedActor::run has no loop polling parent_ctrl_rx.recv() (shape not understood, fail closed)", **loc(arun)):
        has_state = bool(calls_in(lp, "Actor::state"))
        ctx.check(has_state, "K6-actor-cleanup", arun["fn"], "main-loop:polls-actor-state", "loop drives Actor::state / Actor::run",
                  "the loop of SupervisedActor::run no longer polls Actor::state (anchor drift)", **loc(arun, lp))
        after = seq_calls(following(root, lp))
        cl = [(n, aw) for (n, aw) in after if n.get("e") == "mcall" and ends(callee_of(n), "Actor::cleanup")]
        inside = [n for n in calls_in(lp, "Actor::cleanup") if not n.get("exp")]
        ctx.check(any(aw for (_, aw) in cl), "K6-actor-cleanup", arun["fn"], "cleanup:awaited-after-loop",
                  "self.a.cleanup().await follows the loop unconditionally",
                  "Actor::cleanup() is not awaited unconditionally after the actor loop of SupervisedActor::run"
                  + (f" (it is called inside the loop at line {inside[0].get('line')}: only some exits of the loop run it)" if inside else "")
                  + (" (called but not awaited: the future is dropped without running)" if cl and not any(aw for (_, aw) in cl) else "")
                  + " — an actor stopped by its supervisor, or stopping by itself, would end without cleanup",
                  **loc(arun, (inside[0] if inside else lp)))
        rs = rets(root)
        ctx.check(not rs, "K6-actor-cleanup", arun["fn"], "no-return-skipping-cleanup",
                  "no `return` in the body", f"SupervisedActor::run contains `return` at line(s) {[r.get('line') for r in rs]}: that exit skips Actor::cleanup()",
                  **loc(arun, rs[0] if rs else None))
        lb = labelled_breaks(root)
        ctx.check(not lb, "K6-actor-cleanup", arun["fn"], "no-labelled-break", "no labelled break/continue",
                  "labelled break/continue in SupervisedActor::run: exits may bypass the statements after the loop (shape not understood, fail closed)",
                  **loc(arun, lb[0] if lb else None))
        by_ref = bool(arun.get("params")) and arun["params"][0].get("ty", "").startswith("&")
        ctx.check(by_ref, "K6-actor-cleanup", arun["fn"], "receiver-outlives-run:&mut self",
                  "run borrows self, the receiver cannot be dropped inside it",
                  f"SupervisedActor::run takes self as `{(arun.get('params') or [{}])[0].get('ty')}`: it owns (and may drop) the control receiver before cleanup has run",
                  **loc(arun))
        bad_uses = []
        for n in walk(root):
            if n.get("e") == "field" and n.get("f") == "parent_ctrl_rx":
                par = (ancestors(root, n) or [None, None])
                # find the nearest call/mcall ancestor
                user = None
                for a in reversed(par[:-1]):
                    if a.get("e") in ("call", "mcall"):
                        user = a
                        break
                    if a.get("e") in ("assign", "let") or a.get("s") == "let":
                        user = a
                        break
                if not (user is not None and user.get("e") == "mcall" and ends(callee_of(user), "broadcast::Receiver::<T>::recv") and on_field(user, "parent_ctrl_rx")):
                    bad_uses.append(n)
        ctx.check(not bad_uses, "K6-actor-cleanup", arun["fn"], "receiver-only-recv",
                  "parent_ctrl_rx used only as receiver of recv()",
                  f"parent_ctrl_rx is used other than through Receiver::recv at line(s) {[n.get('line') for n in bad_uses]} (moved, replaced or dropped?): "
                  "the supervisor may see the receiver close before cleanup has run", **loc(arun, bad_uses[0] if bad_uses else None))
        ctx.sample(f"{arun['file']}:{lp.get('line')} SupervisedActor::run :: loop{{select! recv|state}} ; cleanup().await ; no return")
    # the spawned future awaits run on the value owning the receiver
    root = fn_root(spawn)
    sc = spawned_closures(root)
    ok = False
    for (c, clo) in sc:
        for (n, aw) in seq_calls([clo["body"]]):
            if aw and n.get("e") == "mcall" and ends(callee_of(n), "SupervisedActor::<A>::run"):
                ok = True
    ctx.check(ok, "K6-actor-cleanup", spawn["fn"], "task-awaits:SupervisedActor::run",
              "spawned future awaits SupervisedActor::run", "the future spawned by Supervisor::spawn does not await SupervisedActor::run unconditionally "
              "(the receiver would be dropped without the actor loop/cleanup having run)", **loc(spawn))

    # ---- K6-task-stop -----------------------------------------------------------------
    root = real_root(trun)
    lp = main_loop(root, "parent_ctrl_rx")
    if ctx.check(lp is not None, "K6-task-stop", trun["fn"], "main-loop", "loop polling parent_ctrl_rx.recv() found",
                 "SupervisorTask::run has no loop polling parent_ctrl_rx.recv() (shape not understood, fail closed)", **loc(trun)):
        after = seq_calls(following(root, lp))
        idx_send = [i for i, (n, aw) in enumerate(after) if n.get("e") == "mcall" and ends(callee_of(n), "broadcast::Sender::<T>::send") and on_field(n, "ctrl_tx")]
        idx_closed = [i for i, (n, aw) in enumerate(after) if aw and n.get("e") == "mcall" and ends(callee_of(n), "broadcast::Sender::<T>::closed") and on_field(n, "ctrl_tx")]
        ctx.check(bool(idx_send), "K6-task-stop", trun["fn"], "after-loop:ctrl_tx.send",
                  "stop is broadcast to subordinates after the loop",
                  "SupervisorTask::run does not call ctrl_tx.send(()) unconditionally after its loop: actors and subordinate supervisors are never told to stop",
                  **loc(trun, lp))
        ctx.check(bool(idx_closed), "K6-task-stop", trun["fn"], "after-loop:ctrl_tx.closed().await",
                  "waits for every subordinate receiver to be dropped",
                  "SupervisorTask::run does not await ctrl_tx.closed() after broadcasting stop: it returns (and Supervisor::stop completes) while actors are still running their cleanup",
                  **loc(trun, lp))
        ctx.check(not (idx_send and idx_closed) or min(idx_send) < min(idx_closed), "K6-task-stop", trun["fn"], "order:send<closed",
                  "send precedes closed().await", "ctrl_tx.closed().await does not come after ctrl_tx.send(()) in SupervisorTask::run", **loc(trun, lp))
        rs = rets(root)
        ctx.check(not rs, "K6-task-stop", trun["fn"], "no-return-skipping-wait", "no `return` in the body",
                  f"SupervisorTask::run contains `return` at line(s) {[r.get('line') for r in rs]}: that exit skips the stop broadcast / the wait for subordinates",
                  **loc(trun, rs[0] if rs else None))
        ctx.sample(f"{trun['file']}:{lp.get('line')} SupervisorTask::run :: loop ; ctrl_tx.send(()) ; ctrl_tx.closed().await")
    root = fn_root(build)
    ok = False
    for (c, clo) in spawned_closures(root):
        st = [n for n in walk(clo["body"]) if n.get("e") == "struct" and ends(def_of(n), "kanidm_actors::SupervisorTask")
              and {"mbox_rx", "ctrl_tx", "parent_ctrl_rx"} <= {f["f"] for f in n["fields"]}]
        aw = [n for (n, a) in seq_calls([clo["body"]]) if a and n.get("e") == "mcall" and ends(callee_of(n), "SupervisorTask::run")]
        if st and aw:
            ok = True
    ctx.check(ok and not is_async(build), "K6-task-stop", build["fn"], "task-owns-mbox_rx-until-run-returns",
              "the spawned supervisor task builds SupervisorTask{mbox_rx,..} and awaits run()",
              "Supervisor::build's spawned future does not construct SupervisorTask{parent_ctrl_rx, mbox_rx, ctrl_tx} and await its run(): mbox_tx.closed() "
              "would not mean 'the supervisor task has finished'", **loc(build))
    nch = len(calls_in(root, "tokio::sync::broadcast::channel"))
    ctx.check(nch == 1, "K6-task-stop", build["fn"], "one-control-channel", "one broadcast channel shared by Supervisor and its task",
              f"Supervisor::build creates {nch} broadcast channels: the channel subordinates subscribe to may differ from the one the task waits on", **loc(build))

    # ---- K6-stop-waits ----------------------------------------------------------------
    root = real_root(stop)
    blk = unwrap(root)
    top = seq_calls((blk["b"]["stmts"] + ([blk["b"]["tail"]] if "tail" in blk["b"] else [])) if blk.get("e") == "blockexpr" else [root])
    i_send = [i for i, (n, aw) in enumerate(top) if aw and n.get("e") == "mcall" and ends(callee_of(n), "mpsc::bounded::Sender::<T>::send") and on_field(n, "mbox_tx")
              and has_token(tokens(n.get("args", [])), "def", "kanidm_actors::SupervisorMessage::Stop")]
    i_closed = [i for i, (n, aw) in enumerate(top) if aw and n.get("e") == "mcall" and ends(callee_of(n), "mpsc::bounded::Sender::<T>::closed") and on_field(n, "mbox_tx")]
    ctx.check(bool(i_send), "K6-stop-waits", stop["fn"], "mbox_tx.send(Stop).await", "Stop is sent to the supervisor task",
              "Supervisor::stop does not await mbox_tx.send(SupervisorMessage::Stop) unconditionally", **loc(stop))
    ctx.check(bool(i_closed) and (not i_send or min(i_send) < min(i_closed)), "K6-stop-waits", stop["fn"], "mbox_tx.closed().await",
              "stop() waits until the supervisor task has dropped its mailbox",
              "Supervisor::stop does not await mbox_tx.closed() after sending Stop: stop() completes before the supervisor task (and therefore its actors) has stopped",
              **loc(stop))
    rs = rets(root)
    ctx.check(not rs, "K6-stop-waits", stop["fn"], "no-return-skipping-wait", "no `return` in the body",
              f"Supervisor::stop contains `return` at line(s) {[r.get('line') for r in rs]}: that exit completes stop() without waiting", **loc(stop, rs[0] if rs else None))

    # ---- K6-subscribe-first --------------------------------------------------------------
    root = fn_root(spawn)
    prov = prov_binds(root, include_mut=True)
    sc = spawned_closures(root)
    ctx.check(not is_async(spawn), "K6-subscribe-first", spawn["fn"], "not-async", "spawn is a plain fn: subscription happens when it is called",
              "Supervisor::spawn became async: the subscription is deferred until the returned future is polled, so a stop issued in between does not wait for this actor",
              **loc(spawn))
    if ctx.check(len(sc) >= 1, "K6-subscribe-first", spawn["fn"], "spawns", "tokio::spawn(async ..) found",
                 "Supervisor::spawn no longer calls tokio::spawn with an async block (shape not understood)", **loc(spawn)):
        for (c, clo) in sc:
            before = calls_before(root, c)
            subs = [n for n in before if n.get("e") == "mcall" and ends(callee_of(n), "broadcast::Sender::<T>::subscribe") and on_field(n, "ctrl_tx")]
            in_clo = [n for n in walk(clo) if n.get("e") == "mcall" and ends(callee_of(n), "broadcast::Sender::<T>::subscribe")]
            captured = set()
            for n in walk(clo):
                l = local_id(n) if n.get("e") == "path" else None
                if l is not None:
                    captured |= {l}
            derives = any(has_token(deep_tokens({"e": "path", "res": {"local": l}}, prov, 4), "call", "broadcast::Sender::<T>::subscribe") for l in captured)
            ctx.check(bool(subs) and not in_clo and derives, "K6-subscribe-first", spawn["fn"], "subscribe<spawn",
                      "ctrl_tx.subscribe() precedes tokio::spawn and its receiver is moved into the task",
                      "Supervisor::spawn does not call ctrl_tx.subscribe() before tokio::spawn (outside the spawned future) with that receiver moved into the task"
                      f" [subscribe before spawn: {bool(subs)}, subscribe inside the future: {bool(in_clo)}, task owns the receiver: {derives}] — "
                      "a stop racing the spawn would not wait for this actor", **loc(spawn, c))
    root = real_root(sub)
    prov = prov_binds(root)
    bcalls = [n for n in all_calls(root, into_closures=False) if callee_of(n) == build["fn"]]
    if ctx.check(len(bcalls) >= 1, "K6-subscribe-first", sub["fn"], "builds", "Supervisor::build(..) called",
                 "Supervisor::subordinate no longer calls Supervisor::build (shape not understood)", **loc(sub)):
        for b in bcalls:
            before_stmts = preceding_stmts(root, b)
            seq = seq_calls(before_stmts)
            subs = [i for i, (n, aw) in enumerate(seq) if n.get("e") == "mcall" and ends(callee_of(n), "broadcast::Sender::<T>::subscribe") and on_field(n, "ctrl_tx")]
            awaits_between = [n for i, (n, aw) in enumerate(seq) if aw and subs and i > subs[0]]
            arg_ok = bool(b.get("args")) and has_token(deep_tokens(b["args"][0], prov, 3), "call", "broadcast::Sender::<T>::subscribe")
            ctx.check(bool(subs) and arg_ok and not awaits_between, "K6-subscribe-first", sub["fn"], "subscribe<build",
                      "ctrl_tx.subscribe() precedes Supervisor::build(receiver) with no await in between",
                      f"Supervisor::subordinate does not subscribe to ctrl_tx before building (spawning) the subordinate with that receiver "
                      f"[subscribe before build: {bool(subs)}, receiver passed: {arg_ok}, awaits in between: {len(awaits_between)}]", **loc(sub, b))

    # ---- K6-exec ----------------------------------------------------------------------------
    root = real_root(rexec)
    loops = [l for l in user_loops(root) if calls_in(l, "SignalSource::recv")]
    if ctx.check(len(loops) >= 1, "K6-exec", rexec["fn"], "main-loop", "signal loop found",
                 "Runtime::exec has no loop polling SignalSource::recv (shape not understood)", **loc(rexec)):
        fol = following(root, loops[0])
        seq = seq_calls(fol)
        sends = [n for (n, aw) in seq if n.get("e") == "mcall" and ends(callee_of(n), "broadcast::Sender::<T>::send")]
        waits = []
        for s in fol:
            for n in walk(s, into_closures=False):
                x = _awaited(n)
                if isinstance(x, dict) and n.get("e") == "match" and not (x.get("e") in ("call", "mcall")):
                    waits.append(n)
        ctx.check(bool(sends), "K6-exec", rexec["fn"], "after-loop:ctrl_tx.send", "primary supervisor is told to stop",
                  "Runtime::exec does not send on the primary control channel after its signal loop", **loc(rexec, loops[0]))
        ctx.check(bool(waits), "K6-exec", rexec["fn"], "after-loop:await-supervisor", "primary supervisor task is awaited",
                  "Runtime::exec does not await the primary supervisor's JoinHandle after telling it to stop: the runtime returns while actors still run",
                  **loc(rexec, loops[0]))
