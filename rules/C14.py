"""C14 Replication wire framing survives any fragmentation — clause (K6 decided by finite-domain evaluation of the extracted guards).

decode_length_checked_json touches the buffer length L = src.len(), the announced length R = u64::from_be_bytes(header) and the
limit M = max_frame_bytes only through linear comparisons (`L < 8`, `R == 0`, `R > M`, `payload.len() < R` with payload =
src.split_at(8).1, ...). The rule extracts, for every site of interest, the path condition computed by the K3 engine, rewrites
each comparison into a linear form over (L, R, M) by provenance (split_at components, casts, from_be_bytes) and evaluates it
over a small grid that contains every ordering of L against H, H+R and R, and of R against 0 and M. No kanidm code runs.

Decided:
 (a) every call that consumes or mutates the buffer (any `&mut self` method of BytesMut on the parameter, or passing the
     parameter to a function: advance, clear, split_to, mem::swap, ..) is reachable only when the frame is complete
     (L ≥ H and L − H ≥ R): an incomplete frame is left intact for the next read;
 (b) serde_json::from_slice is reachable only when R ≠ 0, R ≤ M and the frame is complete, and parses exactly R bytes;
 (c) decision table: L < H ⇒ Ok(None); R = 0 ⇒ Err; R > M ⇒ Err (even if incomplete: not buffered); payload short ⇒ Ok(None);
     otherwise the parsed value is returned and exactly H + R bytes are consumed (advance(H + R), or clear() only when L = H + R);
 (d) encode_length_checked_json writes, into the H-byte slot in front of the payload, the big-endian u64 length of the buffer
     serde_json::to_writer filled; header width and endianness agree with decode (u64 / be / H = 8).
 (e) K2-codec-delegates: Decoder::decode / Encoder::encode of ConsumerCodec and SupplierCodec are pure delegations to (a)-(d)'s functions:
     no other use of the buffer, no early return, no hand-built Err.
Not decided: behaviour over actual chunkings and back-to-back frames at run time, tokio's Framed loop, serde behaviour.
"""
import itertools

from .lib.hir import *
from .lib import pathcond as pc
from .lib.x_prov import Prov, pat_binds

META = dict(
    technique="path conditions of buffer-mutation / parse / return sites (K6/K3) evaluated over a finite grid of (buffer length, announced length, limit) via linear forms extracted by provenance",
    level_text="Exhaustive structural check: every buffer-consuming call, the JSON parse and every return of decode_length_checked_json is placed, by evaluating the extracted guards over all "
               "orderings of buffer length, header size, announced length and limit, into the specification's decision table (incomplete ⇒ untouched + Ok(None); empty / oversize ⇒ Err; "
               "complete ⇒ parse R bytes, consume 8+R). The encoder's length field is traced to the serialised payload's length. The one codec test uses fixed buffers.",
    level_note="Decides the named clauses of the two codec functions; run-time chunkings, tokio's framing loop and serde are NOT decided. "
               "Trusted: rustc's HIR/types, the K3 engine, the linear-form extraction (fails closed on anything it cannot express).",
)
CORE = "kanidmd_core"
DEC = "kanidmd_core::repl::codec::decode_length_checked_json"
ENC = "kanidmd_core::repl::codec::encode_length_checked_json"
HARMLESS_MUT = ("reserve",)      # &mut self methods that never change the readable content


# ---------------------------------------------------------------------------
# linear forms over symbols 'L','R','M' : {sym: coef, 1: const}

def lin_add(a, b, sign=1):
    if a is None or b is None:
        return None
    out = dict(a)
    for k, v in b.items():
        out[k] = out.get(k, 0) + sign * v
    return {k: v for k, v in out.items() if v != 0 or k == 1}


def lin_val(a, env):
    return sum(v * (1 if k == 1 else env[k]) for k, v in a.items())


class Model:
    def __init__(self, fn, const_val=None):
        self.fn = fn
        self._cv, self._cv_memo, self._lin_memo = const_val or (lambda d: None), {}, {}
        self.P = Prov(fn)
        P = self.P
        self.src = [l for l, lab in P.param_of.items() if "BytesMut" in fn["params"][int(lab[1:])].get("ty", "")]
        self.maxp = [l for l, lab in P.param_of.items() if fn["params"][int(lab[1:])].get("ty", "") in ("usize", "u64", "u32")]
        # writes through slices: X.copy_from_slice(Y) makes X derive from Y
        for n in walk(fn["body"]):
            if n.get("e") == "mcall" and n.get("name") in ("copy_from_slice", "clone_from_slice") and n["args"]:
                x = P.local_of(n["recv"])
                if x is not None:
                    P.src.setdefault(x, []).append(n["args"][0])
        self.lens = {}        # local -> linear form of its length
        self.header = None
        self.H = None
        self.rlocal = None
        self.rwidth = None
        self._splits()

    def const_val(self, d):
        if d not in self._cv_memo:
            self._cv_memo[d] = self._cv(d)
        return self._cv_memo[d]

    def is_src(self, e):
        e = unwrap(e)
        return isinstance(e, dict) and e.get("e") == "path" and e["res"].get("local") in self.src

    def len_of(self, e, depth=0):
        """length (linear form) of a slice / buffer expression"""
        e = unwrap(e)
        if depth > 6 or not isinstance(e, dict):
            return None
        if self.is_src(e):
            return {"L": 1}
        lid = self.P.local_of(e)
        if lid is not None:
            if lid in self.lens:
                return self.lens[lid]
            s = self.P.sources(lid)
            if len(s) == 1:
                return self.len_of(s[0], depth + 1)
            return None
        if e.get("e") == "mcall" and e.get("name") in ("as_ref", "as_slice", "deref", "as_mut", "borrow", "chunk") and not e["args"]:
            return self.len_of(e["recv"], depth + 1)
        return None

    def _splits(self):
        for n in walk(self.fn["body"]):
            if n.get("s") == "let" and "init" in n and n["pat"].get("p") == "tuple" and len(n["pat"]["pats"]) == 2:
                init = unwrap(n["init"])
                if init.get("e") == "mcall" and init.get("name") == "split_at" and len(init["args"]) == 1:
                    whole = self.len_of(init["recv"])
                    at = self.sym(init["args"][0])
                    a = [l for l, _ in pat_binds(n["pat"]["pats"][0])]
                    b = [l for l, _ in pat_binds(n["pat"]["pats"][1])]
                    if whole is not None and at is not None:
                        for l in a:
                            self.lens[l] = at
                        for l in b:
                            self.lens[l] = lin_add(whole, at, -1)
                    if self.is_src(init["recv"]) and at is not None and set(at) == {1} and self.header is None:
                        self.header = a
                        self.H = at[1]
                        # announced length: the local computed by from_be_bytes over the header bytes
                        for m in walk(self.fn["body"]):
                            if m.get("s") == "let" and "init" in m and m["pat"].get("p") == "bind":
                                i2 = unwrap(m["init"])
                                if i2.get("e") == "call" and callee_of(i2).endswith("::from_be_bytes") and (self.P.local_roots(i2["args"][0]) & set(a)):
                                    self.rlocal = m["pat"]["local"]
                                    self.rwidth = {"u64": 8, "u32": 4, "u16": 2, "usize": 8}.get(callee_of(i2).split("impl ")[-1].split(">")[0])

    def sym(self, e, depth=0):
        """linear form of an integer expression, or None"""
        e0 = e
        while isinstance(e, dict) and e.get("e") == "wrap":
            e = e["x"]
        if depth > 8 or not isinstance(e, dict):
            return None
        k = e.get("e")
        if k == "lit" and e.get("lk") == "int":
            digits = "".join(ch for ch in str(e["v"]).split("u")[0].split("i")[0] if ch.isdigit())
            return {1: int(digits or 0)}
        if k == "path":
            lid = e["res"].get("local")
            if lid is None:
                v = self.const_val(e["res"].get("def", ""))      # named integer constant (compiler-evaluated item fact)
                return {1: v} if v is not None else None
            if lid == self.rlocal:
                return {"R": 1}
            if lid in self.maxp:
                return {"M": 1}
            s = self.P.sources(lid)
            if len(s) == 1 and lid not in self.P.param_of:
                return self.sym(s[0], depth + 1)
            return None
        if k == "mcall" and e.get("name") == "len" and not e["args"]:
            return self.len_of(e["recv"])
        if k == "bin" and e["op"] in ("+", "-"):
            return lin_add(self.sym(e["l"], depth + 1), self.sym(e["r"], depth + 1), 1 if e["op"] == "+" else -1)
        if k == "blockexpr" and not e["b"]["stmts"] and "tail" in e["b"]:
            return self.sym(e["b"]["tail"], depth + 1)
        return None

    # three-valued evaluation of a pathcond formula
    def ev(self, f, env):
        t = f[0]
        if t == "true":
            return True
        if t == "false":
            return False
        if t == "not":
            v = self.ev(f[1], env)
            return None if v is None else (not v)
        if t in ("and", "or"):
            vals = [self.ev(g, env) for g in f[1]]
            if t == "and":
                if any(v is False for v in vals):
                    return False
                return True if all(v is True for v in vals) else None
            if any(v is True for v in vals):
                return True
            return False if all(v is False for v in vals) else None
        if t == "leaf" and f[1] == "expr":
            e = unwrap(f[2])
            if e.get("e") == "bin" and e["op"] in ("<", "<=", ">", ">=", "==", "!="):
                if id(e) not in self._lin_memo:
                    self._lin_memo[id(e)] = (self.sym(e["l"]), self.sym(e["r"]), e)
                l, r, _ = self._lin_memo[id(e)]
                if l is None or r is None:
                    return None
                a, b = lin_val(l, env), lin_val(r, env)
                return {"<": a < b, "<=": a <= b, ">": a > b, ">=": a >= b, "==": a == b, "!=": a != b}[e["op"]]
        return None

    def reach(self, conds, env):
        """False = unreachable, True = certainly reached (as far as the guards are concerned), None = possibly."""
        vals = [self.ev(f, env) for f in conds]
        if any(v is False for v in vals):
            return False
        return True if all(v is True for v in vals) else None


def classify(env, H):
    L, R, M = env["L"], env["R"], env["M"]
    if L < H:
        return "short-header"
    if R == 0:
        return "empty-frame"
    if R > M:
        return "over-limit"
    if L - H < R:
        return "incomplete-payload"
    return "complete"


EXPECT_RET = {"short-header": "Ok(None)", "empty-frame": "Err", "over-limit": "Err", "incomplete-payload": "Ok(None)", "complete": "parsed"}


def run(ctx):
    ctx.explanation = ("Guards on the paths to every buffer-mutating call, the JSON parse and every return of decode_length_checked_json are extracted (K3), rewritten into linear "
                       "forms over buffer length / announced length / limit and evaluated over a grid covering all orderings; the outcome must match the framing decision table. "
                       "The encoder's length field is traced to the serialised payload. Structural clause; run-time chunkings are not decided.")
    decode(ctx)
    encode(ctx)
    codecs_delegate(ctx)


def decode(ctx):
    R_ = "K6-decode"
    fn = ctx.fn(CORE, DEC)
    md = Model(fn, lambda d: ctx.facts.const_val(CORE, d) if d else None)
    P = md.P
    loc = dict(file=fn["file"], line=fn["line"])
    ok = len(md.src) == 1 and len(md.maxp) == 1 and md.H is not None and md.rlocal is not None
    if not ctx.check(ok, R_, fn["fn"], "model-extracted",
                     f"buffer parameter, limit parameter, header split_at({md.H}) and announced length (from_be_bytes of the header) identified",
                     f"cannot identify buffer parameter ({len(md.src)}), limit parameter ({len(md.maxp)}), the header split `src.split_at(H)` (H={md.H}) or the announced length "
                     f"`from_be_bytes(header)` ({md.rlocal}) (shape not understood)", **loc):
        return
    H = md.H
    ctx.check(md.rwidth == H, R_, fn["fn"], "header-width", f"header is {H} bytes = width of the decoded integer",
              f"the header split is {H} bytes but the length is decoded as a {md.rwidth}-byte integer", **loc)
    srcl = md.src[0]

    def derives_from_src(e):
        return srcl in P.local_roots(e, args=False)

    def is_mut(n):
        if n.get("exp"):
            return False
        if n.get("e") == "mcall":
            if n.get("recv_ty", "").startswith("&mut") and "BytesMut" in n.get("recv_ty", "") and derives_from_src(n["recv"]) and n.get("name") not in HARMLESS_MUT:
                return True
            return any(md.is_src(a) for a in n["args"])
        if n.get("e") == "call" and not n.get("ctor"):
            return any(md.is_src(a) for a in n["args"])
        if n.get("e") == "assign":
            l = n["l"]
            return isinstance(l, dict) and l.get("e") == "un" and md.is_src(l["x"])
        return False

    def is_parse(n):
        return n.get("e") == "call" and callee_of(n).startswith("serde_json::") and "from_" in callee_of(n)

    def ret_kind(x):
        x = unwrap(x)
        if x.get("e") == "call" and ends(x.get("ctor", ""), "core::result::Result::Ok"):
            a = unwrap(x["args"][0]) if x["args"] else {}
            if a.get("e") == "path" and ends(a["res"].get("def", ""), "core::option::Option::None"):
                return "Ok(None)"
            return "Ok(value)"
        if x.get("e") == "call" and ends(x.get("ctor", ""), "core::result::Result::Err"):
            return "Err"
        return None
    top = unwrap(fn["body"])
    tail = top["b"].get("tail") if top.get("e") == "blockexpr" else None
    parse_sites = pc.site_conditions(fn["body"], is_parse)
    parse_nodes = [s for s, _ in parse_sites]

    def is_ret(n):
        return (n.get("e") == "ret" and not n.get("exp")) or (tail is not None and n is tail)
    mut_sites = pc.site_conditions(fn["body"], is_mut)
    ret_sites = pc.site_conditions(fn["body"], is_ret)
    ctx.floor(R_, "buffer-mutating sites", len(mut_sites), 2)
    ctx.floor(R_, "parse sites", len(parse_sites), 1)
    ctx.floor(R_, "return sites", len(ret_sites), 5)
    rets = []
    for (n, conds) in ret_sites:
        if n.get("e") == "ret":
            k = ret_kind(n.get("x", {}))
        else:
            k = ret_kind(n)
            if k is None:
                roots = P.local_roots(n)
                k = "parsed" if any(any(x is p for x in walk(s)) for l in roots for s in P.sources(l) for p in parse_nodes) or any(x is p for x in walk(n) for p in parse_nodes) else None
        rets.append((n, conds, k))
    ctx.check(all(k is not None for _, _, k in rets), R_, fn["fn"], "returns-classified", "every return is Ok(None) / Err / the parsed value",
              f"a return value is neither Ok(None), Err(..) nor the parse result: {[(n.get('line'), k) for n, _, k in rets if k is None]} (shape not understood)", **loc)

    def consumed(n):
        """linear form of the number of bytes a mutating call removes, or None if unknown"""
        if n.get("e") == "mcall" and n.get("name") in ("advance", "split_to") and len(n["args"]) == 1:
            return md.sym(n["args"][0])
        if n.get("e") == "mcall" and n.get("name") == "clear":
            return {"L": 1}
        if n.get("e") == "call" and ends(callee_of(n), "core::mem::swap", "core::mem::replace", "core::mem::take"):
            return {"L": 1}
        return None
    # grid: every ordering of L vs H, H+R, R and of R vs 0, M
    Ls = range(0, 3 * H + 3)
    Rs = range(0, 2 * H + 3)
    Ms = (0, 1, H - 3, H, H + 4, 3 * H)
    per_class = {c: [] for c in EXPECT_RET}
    site_bad = {id(n): [] for n, _ in mut_sites}
    parse_bad = []
    n_eval = 0
    for L_, R2, M_ in itertools.product(Ls, Rs, Ms):
        env = {"L": L_, "R": R2, "M": M_}
        cls = classify(env, H)
        n_eval += 1
        complete = L_ >= H and L_ - H >= R2
        # (a) mutations
        eaten = 0
        uncertain = []
        for (n, conds) in mut_sites:
            r = md.reach(conds, env)
            if r is False:
                continue
            if not complete:
                site_bad[id(n)].append((env, cls))
            c = consumed(n)
            if cls == "complete":
                if c is None:
                    uncertain.append(("unknown effect", n))
                elif r is None and lin_val(c, env) != H + R2:
                    uncertain.append(("possibly reached, consumes %d" % lin_val(c, env), n))
                elif r is True:
                    # swap-after-clear: the buffer is already empty; count a buffer replacement only once
                    eaten = max(eaten, lin_val(c, env)) if c == {"L": 1} else eaten + lin_val(c, env)
        # (b) parse
        for (n, conds) in parse_sites:
            r = md.reach(conds, env)
            if r is False:
                continue
            ln = md.len_of(n["args"][0]) if n["args"] else None
            if cls != "complete" or ln is None or lin_val(ln, env) != R2:
                parse_bad.append((env, cls, None if ln is None else lin_val(ln, env)))
        # (c) returns
        poss = sorted({k for (n, conds, k) in rets if md.reach(conds, env) is not False and k})
        # the first return whose guards hold is taken: a later return is only reached if the earlier ones are excluded by their guards,
        # which the K3 engine already encodes (negated divergence conditions), so `poss` must be a singleton
        want = EXPECT_RET[cls]
        bad = None
        if poss != [want]:
            bad = f"returns {poss or 'nothing'}"
        elif cls == "complete" and (uncertain or eaten != H + R2):
            bad = f"consumes {eaten} bytes" + (f" ({uncertain[0][0]} at line {uncertain[0][1].get('line')})" if uncertain else "")
        if bad:
            per_class[cls].append((env, bad))
    ctx.extra["evaluations"] = n_eval
    for cls, bads in per_class.items():
        want = EXPECT_RET[cls] + (f" and exactly {H}+R bytes consumed" if cls == "complete" else "")
        d = ""
        if bads:
            env, bad = bads[0]
            d = (f"with buffer length {env['L']}, announced length {env['R']}, limit {env['M']} ({cls}) the extracted decoder {bad}; expected {want} "
                 f"({len(bads)} grid points disagree) — frames would be dropped, duplicated, buffered without bound or mis-parsed depending on how the bytes arrive")
        ctx.check(not bads, R_, fn["fn"], f"table:{cls}", want, d, **loc)
    seen_names = {}
    for (n, conds) in mut_sites:
        bads = site_bad[id(n)]
        nm = short(callee_of(n), 2) if n.get("e") != "assign" else "*src = .."
        seen_names[nm] = seen_names.get(nm, 0) + 1
        if seen_names[nm] > 1:
            nm += f"#{seen_names[nm]}"          # several sites of the same callee: source order
        d = ""
        if bads:
            env, cls = bads[0]
            d = (f"{nm} on the receive buffer is reachable with buffer length {env['L']}, announced length {env['R']}, limit {env['M']} ({cls}): the frame is not complete yet, "
                 f"so bytes of a partially received frame are discarded and the stream loses framing ({len(bads)} grid points)")
        ctx.check(not bads, R_, fn["fn"], f"mutation-only-when-complete:{nm}", "reachable only when header and payload are complete", d, file=fn["file"], line=n.get("line"))
    d = ""
    if parse_bad:
        env, cls, ln = parse_bad[0]
        d = (f"serde_json::from_slice is reachable with buffer length {env['L']}, announced length {env['R']}, limit {env['M']} ({cls}) on a slice of {ln} bytes: "
             "the zero-length / over-limit / completeness tests do not dominate the parse, or it does not parse exactly the announced bytes")
    ctx.check(not parse_bad, R_, fn["fn"], "parse-dominated", "parse only for 0 < R ≤ limit on a complete frame, on exactly R bytes", d, **loc)
    dead = [short(callee_of(n), 2) for (n, conds) in mut_sites if all(md.reach(conds, {"L": a, "R": b, "M": c}) is False for a, b, c in itertools.product(Ls, Rs, Ms))]
    if dead:
        ctx.notes.append(f"decode_length_checked_json: {dead} unreachable for every (L, R, M) of the grid — the `src.len() == req_len` test can never hold after the completeness test "
                         "(src.len() ≥ 8 + req_len); harmless for framing (advance(8 + req_len) always runs), but the buffer-shrink branch is dead code")
    ctx.sample(f"decode: H={H}; mutating sites {[short(callee_of(n), 1) for n, _ in mut_sites]}; returns {[k for _, _, k in rets]}; dead {dead}")


def encode(ctx):
    R_ = "K6-encode"
    fn = ctx.fn(CORE, ENC)
    P = Prov(fn)
    loc = dict(file=fn["file"], line=fn["line"])
    order = {id(n): i for i, n in enumerate(walk(fn["body"]))}
    sers = [n for n in walk(fn["body"]) if n.get("e") == "call" and callee_of(n).startswith("serde_json::ser::to_writer")]
    if not ctx.check(len(sers) == 1 and len(sers[0]["args"]) == 2, R_, fn["fn"], "serialises-once", "serde_json::to_writer(writer, msg)",
                     f"expected one serde_json::to_writer call in encode, found {len(sers)} (shape not understood)", **loc):
        return
    ser = sers[0]
    wl = P.local_of(ser["args"][0])          # the writer handed to serde_json::to_writer
    if not ctx.check(wl is not None, R_, fn["fn"], "writer-local", "writer is a local", "the writer passed to serde_json::to_writer is not a local (shape not understood)", **loc):
        return
    ctx.check("p0" in P.labels(ser["args"][1]), R_, fn["fn"], "serialises-message", "the message parameter is serialised", "to_writer does not serialise the message parameter", **loc)
    # length: <int>.to_be_bytes() where <int> derives from X.len() and X derives from the writer (into_inner) — after serialisation
    cands = []
    for n in walk(fn["body"]):
        if n.get("e") == "mcall" and n.get("name") == "to_be_bytes" and not n.get("exp"):
            lens = [m for l in P.local_roots(n["recv"]) | {None} for s in (P.sources(l) if l is not None else [n["recv"]]) for m in walk(s)
                    if m.get("e") == "mcall" and m.get("name") == "len"]
            for m in lens:
                if wl in P.local_roots(m["recv"]) and order[id(m)] > order[id(ser)]:
                    cands.append((n, m))
    if not ctx.check(bool(cands), R_, fn["fn"], "length-of-serialised-payload", "header value = (buffer filled by to_writer).len(), taken after serialisation",
                     "no `<payload buffer>.len() .. .to_be_bytes()` computed after serde_json::to_writer from the buffer it filled: the length field is not the serialised payload's length "
                     "(the peer would wait for bytes that never come, or cut the frame short)", **loc):
        return
    tb = cands[0][0]
    width = {"u64": 8, "u32": 4, "u16": 2, "usize": 8}.get(callee_of(tb).split("impl ")[-1].split(">")[0])
    dec = ctx.fn(CORE, DEC)
    md = Model(dec, lambda d: ctx.facts.const_val(CORE, d) if d else None)
    ctx.check(width is not None and width == md.rwidth == md.H and callee_of(tb).endswith("to_be_bytes"), R_, fn["fn"], "header-format-agrees",
              f"u{(width or 0) * 8} big-endian on both sides, {md.H}-byte header",
              f"encode writes a {width}-byte big-endian length ({callee_of(tb)}) but decode reads a {md.rwidth}-byte integer from a {md.H}-byte header", **loc)
    # the length bytes are written into the buffer (copy_from_slice / put / extend) and that write happens after serialisation
    tbl = set()
    for n in walk(fn["body"]):
        if n.get("s") == "let" and "init" in n and any(x is tb for x in walk(n["init"])):
            tbl |= {l for l, _ in pat_binds(n["pat"])}
    writes = [n for n in walk(fn["body"]) if n.get("e") == "mcall" and not n.get("exp") and n.get("name") in ("copy_from_slice", "extend_from_slice", "put_slice", "put_u64", "put")
              and n["args"] and ((P.local_roots(n["args"][0]) & tbl) or any(x is tb for x in walk(n["args"][0]))) and order[id(n)] > order[id(ser)]]
    ctx.check(len(writes) == 1, R_, fn["fn"], "length-written-to-header", "the length bytes are copied into the header slot",
              f"the big-endian length bytes are written {len(writes)} times into the output (expected once, after serialisation)", **loc)
    if len(writes) == 1:
        hdr = P.local_of(writes[0]["recv"])
        # the header slot must be stitched in front of the payload: hdr.unsplit(payload) then dst.unsplit(hdr)
        uns = [n for n in walk(fn["body"]) if n.get("e") == "mcall" and n.get("name") == "unsplit" and not n.get("exp")]
        front = [n for n in uns if P.local_of(n["recv"]) == hdr and wl in P.local_roots(n["args"][0])]
        out = [n for n in uns if P.param_of.get(P.local_of(n["recv"])) == "p1" and hdr in P.local_roots(n["args"][0])]
        ctx.check(len(front) == 1 and len(out) == 1 and order[id(front[0])] < order[id(out[0])] and order[id(writes[0])] < order[id(out[0])], R_, fn["fn"], "header-precedes-payload",
                  "header.unsplit(payload); dst.unsplit(header)",
                  "the frame is not assembled as header ++ payload appended to the output buffer (shape not understood or order changed)", **loc)
    ctx.sample("encode: length = (to_writer's buffer).len() as u64, big-endian, written into the 8-byte slot in front of the payload")


# ---------------------------------------------------------------------------------------------------------------------
# The decision table above is the framing behaviour only if the tokio codec impls add nothing to it: Decoder::decode and
# Encoder::encode of both codecs hand their buffer to the two table-checked functions and do nothing else with it. Any other
# use of the buffer, or any other way out (return / `?` / a hand-built Err), makes the outcome depend on how many bytes
# happen to be buffered — i.e. on fragmentation and on back-to-back frames.

def codecs_delegate(ctx):
    F = ctx.facts
    R_ = "K2-codec-delegates"
    impls = sorted(n for n in F.find_fns(CORE, r"^kanidmd_core::<repl::codec::(Consumer|Supplier)Codec as tokio_util::codec::(decoder::Decoder|encoder::Encoder<.*>)>::(decode|encode)$"))
    ctx.floor(R_, "Decoder/Encoder impls of the replication codecs", len(impls), 4)
    for n in impls:
        fn = ctx.fn(CORE, n)
        want = DEC if n.endswith("::decode") else ENC
        buf = [p["pat"].get("local") for p in fn["params"] if "BytesMut" in p["ty"] and p["pat"].get("p") == "bind"]
        body = fn["body"]
        dels = [c for c in all_calls(body) if callee_of(c) == want or want in callee_any(c)]
        ok = len(dels) == 1 and len(buf) == 1
        uses = [x for x in walk(body) if x.get("e") == "path" and x.get("res", {}).get("local") in buf]
        inside = set()
        if dels:
            inside = {id(x) for x in walk(dels[0]) if x.get("e") == "path" and x.get("res", {}).get("local") in buf}
        stray = [x for x in uses if id(x) not in inside]
        exits = [x for x in walk(body) if not x.get("exp") and (x.get("e") == "ret" or (x.get("e") == "match" and str(x.get("src", "")).startswith("TryDesugar")))]
        errs = [x for x in constructs(body, "core::result::Result::Err") if not x.get("exp")]
        ctx.check(ok and not stray and not exits and not errs, R_, fn["fn"], "pure-delegation",
                  f"{short(n, 2)} = {short(want, 1)}(.., buffer)",
                  f"{short(n, 2)} does more than delegate to {short(want, 1)}: "
                  + "; ".join(filter(None, [
                      "" if ok else f"{len(dels)} delegation calls",
                      f"the buffer is also used at line(s) {sorted({x.get('line') for x in stray})}" if stray else "",
                      f"early exit at line(s) {sorted({x.get('line') for x in exits})}" if exits else "",
                      f"constructs Err at line(s) {sorted({x.get('line') for x in errs})}" if errs else ""]))
                  + " — the framing outcome then depends on how many bytes are buffered (fragmentation, back-to-back frames), outside the checked decision table",
                  file=fn["file"], line=fn["line"])
