"""C05 A crash at any point recovers to the before or after state — structural clauses (SQLite's own crash
atomicity cannot be examined from this source and is NOT decided).

Decided (DESIGN.md C05), each a necessary clause:
 (i)   K1-sql-through-txn: exactly one `BEGIN EXCLUSIVE|IMMEDIATE` site (IdlSqliteWriteTransaction::new, which gates the
       construction of the transaction object and is reached only through IdlSqlite::write), exactly one `COMMIT` site
       (IdlSqliteWriteTransaction::commit); every statement issued on a rusqlite Connection goes through `get_conn()` of a
       transaction object, except the listed lifecycle functions, whose statements are checked against what they may issue.
 (ii)  K6-persist-before-commit: `set_db_ts_max(cid.ts)` and `write_db_ruv` return Ok before the storage commit, on the
       same transaction object, and delegate down to the SQLite write transaction.
 (iii) K6-startup-seed: startup reads the persisted ts_max before constructing the first change id (shared with C07).
 (iv)  K8-journal-wal: IdlSqlite::new sets journal_mode=WAL unconditionally and any temporary other mode is followed by WAL.
Not decided: the crash-point enumeration itself, SQLite/WAL durability, fsync behaviour.
"""
import re

from .lib.hir import *
from .lib.x_order import Body, last_seg, lit_text, strip_closure
from .lib import x_txn as T

META = dict(
    technique="static who-may-call / order-dominance rules over the storage layer (single BEGIN/COMMIT site, all SQL through the write transaction's connection, "
              "replication metadata and max change time written before the storage commit, WAL journal mode)",
    level_text="Necessary structural clauses of crash atomicity decided over all 80+ SQL call sites of the storage layer: one BEGIN EXCLUSIVE and one COMMIT site, "
               "every statement issued through the transaction's own connection, ts_max and the RUV written inside the committing transaction, WAL mode on open, "
               "startup seeded from the persisted maximum. Library tests only use in-memory databases and never restart on the same file.",
    level_note="Clause claim only: SQLite's crash atomicity, WAL durability and the crash-point enumeration are not decided. Trusted: rustc call resolution, rusqlite semantics of execute/prepare, rule tables.",
)

LIB = T.LIB
W_NEW = "kanidmd_lib::be::idl_sqlite::IdlSqliteWriteTransaction::new"
W_COMMIT = "kanidmd_lib::be::idl_sqlite::IdlSqliteWriteTransaction::commit"
W_DROP = "kanidmd_lib::<be::idl_sqlite::IdlSqliteWriteTransaction as core::ops::drop::Drop>::drop"
R_NEW = "kanidmd_lib::be::idl_sqlite::IdlSqliteReadTransaction::new"
R_DROP = "kanidmd_lib::<be::idl_sqlite::IdlSqliteReadTransaction as core::ops::drop::Drop>::drop"
DB_NEW = "kanidmd_lib::be::idl_sqlite::IdlSqlite::new"
DB_WRITE = "kanidmd_lib::be::idl_sqlite::IdlSqlite::write"
DB_COUNT = "kanidmd_lib::be::idl_sqlite::IdlSqlite::get_allids_count"
W_GET_CONN = "kanidmd_lib::<be::idl_sqlite::IdlSqliteWriteTransaction as be::idl_sqlite::IdlSqliteTransaction>::get_conn"
W_STRUCT = "kanidmd_lib::be::idl_sqlite::IdlSqliteWriteTransaction"

RX_CONN = re.compile(r"^rusqlite::(Connection::|pragma::<impl rusqlite::Connection>::)")
NOT_STATEMENTS = ("open", "open_with_flags", "open_in_memory", "close", "busy_timeout", "last_insert_rowid", "changes", "is_autocommit")
# lifecycle functions that may touch a Connection directly: (reason, regex every SQL text they issue must match)
LIFECYCLE = {
    W_NEW: ("begins the write transaction on the connection it is about to own", r"^\s*BEGIN\s+(EXCLUSIVE|IMMEDIATE)\b"),
    W_COMMIT: ("commits the connection it owns", r"^\s*COMMIT\b"),
    W_DROP: ("rolls back the connection it owns", r"^\s*ROLLBACK\b"),
    R_NEW: ("begins the read transaction", r"^\s*BEGIN\s+DEFERRED\b"),
    R_DROP: ("ends the read transaction", r"^\s*ROLLBACK\b"),
    DB_NEW: ("connection setup before any transaction exists", r"^\W*(PRAGMA|VACUUM)\b"),
    DB_COUNT: ("read-only entry count on an idle pooled connection (cache sizing at startup)", r"^\s*SELECT\b"),
}


def sql_texts(call):
    out = []
    for x in call.get("args", []):
        for a in walk(x):
            t = lit_text(a)
            if t is not None and re.search(r"[A-Za-z]{3}", t):
                out.append(t)
    return out


def is_conn_stmt(n):
    if n.get("e") != "mcall":
        return False
    for c in callee_any(n):
        if RX_CONN.match(c) and last_seg(c) not in NOT_STATEMENTS:
            return True
    return False


def via_get_conn(b, call):
    toks = b.flow_tokens(call["recv"])
    if any(t.startswith("call:") and t.endswith("::get_conn") for t in toks):
        return True
    # `self.get_conn().map(|conn| conn.query_row(..))`: the receiver is the parameter of a closure applied to get_conn()'s value
    r = unwrap(call["recv"])
    if r.get("e") == "path" and "local" in r.get("res", {}):
        loc = r["res"]["local"]
        for (p, k, i) in b.ancestors(call):
            if p.get("e") == "closure" and any(x.get("p") == "bind" and x.get("local") == loc for prm in p.get("params", []) for x in walk(prm)):
                par = b.parent.get(id(p))
                if par and par[0].get("e") == "mcall" and par[1] == "args":
                    t2 = b.flow_tokens(par[0]["recv"])
                    return any(t.startswith("call:") and t.endswith("::get_conn") for t in t2)
    return False


def run(ctx):
    F = ctx.facts
    ctx.explanation = ("Structural clauses of crash atomicity: single BEGIN EXCLUSIVE / COMMIT site and every SQL statement through the transaction's connection (K1); "
                       "ts_max and RUV written before, and inside, the storage commit (K6); startup seeds the first change id from the persisted ts_max (K6); "
                       "journal_mode=WAL on open (K8). SQLite's own crash behaviour is not decided.")

    # ---- (i) statements --------------------------------------------------------------
    n_sites = n_via = 0
    begin_sites, commit_sites = {}, set()
    for name in F.fns_mentioning(LIB, "rusqlite::"):
        rec = F.fn(LIB, name)
        b = None
        for c in all_calls(rec["body"]):
            if not is_conn_stmt(c):
                continue
            if b is None:
                b = Body(rec)
            n_sites += 1
            texts = sql_texts(c)
            for t in texts:
                if re.search(r"^\s*BEGIN\b", t, re.I):
                    begin_sites[name] = t
                if re.search(r"\b(COMMIT|END\s+TRANSACTION)\b", t, re.I):
                    commit_sites.add(name)
            if name in LIFECYCLE:
                reason, rx = LIFECYCLE[name]
                bad = [t for t in texts if not re.search(rx, t, re.I)]
                if last_seg(callee_of(c)) == "pragma_update":
                    bad = []
                ctx.check(not bad, "K1-sql-through-txn", name, "lifecycle-statement:" + last_seg(callee_of(c)),
                          f"lifecycle function ({reason}); statement text as expected",
                          f"{T.nice(name)} ({reason}) issues unexpected SQL {bad[:2]} directly on a connection", file=rec["file"], line=c.get("line"))
                continue
            ok = via_get_conn(b, c)
            n_via += ok
            if ok and n_via % 12 == 1:
                ctx.sample(f"{rec['file']}:{c.get('line')} {T.nice(name)} :: {last_seg(callee_of(c))} on get_conn()")
            if not ok:
                ctx.violation("K1-sql-through-txn", name, "statement-bypasses-transaction:" + last_seg(callee_of(c)),
                              f"{T.nice(name)} line {c.get('line')}: `{last_seg(callee_of(c))}` is issued on a rusqlite Connection that does not come from the transaction's get_conn() "
                              "(and the function is not a listed lifecycle function): the statement would run outside the BEGIN EXCLUSIVE..COMMIT bracket, so a crash could persist it alone",
                              file=rec["file"], line=c.get("line"))
    ctx.floor("K1-sql-through-txn", "SQL statement sites on rusqlite::Connection", n_sites, 75)
    ctx.floor("K1-sql-through-txn", "statement sites issued through get_conn()", n_via, 60)
    ctx.sample(f"{n_via} of {n_sites} Connection statement sites go through get_conn(); the rest are lifecycle sites")

    wrec = ctx.fn(LIB, W_NEW)
    ctx.check(set(begin_sites) == {W_NEW, R_NEW} and re.search(r"BEGIN\s+(EXCLUSIVE|IMMEDIATE)", begin_sites.get(W_NEW, ""), re.I) is not None,
              "K1-sql-through-txn", W_NEW, "single-begin-exclusive-site",
              f"BEGIN sites: {sorted((T.nice(k), v) for k, v in begin_sites.items())}",
              f"BEGIN statements found in {sorted((T.nice(k), v) for k, v in begin_sites.items())}; expected exactly IdlSqliteWriteTransaction::new (EXCLUSIVE) and IdlSqliteReadTransaction::new (DEFERRED) — "
              "a write transaction that does not take the exclusive lock, or a second BEGIN site, breaks the one-transaction-per-write bracket",
              file=wrec["file"], line=wrec["line"])
    crec = ctx.fn(LIB, W_COMMIT)
    ctx.check(commit_sites == {W_COMMIT}, "K1-sql-through-txn", W_COMMIT, "single-commit-site",
              "the only COMMIT statement is in IdlSqliteWriteTransaction::commit",
              f"COMMIT statements found in {sorted(T.nice(x) for x in commit_sites)}; expected exactly IdlSqliteWriteTransaction::commit — a second COMMIT site can make half a write durable",
              file=crec["file"], line=crec["line"])
    txn_api = sorted({strip_closure(r[0]) for r in F.calls(LIB)
                      if re.match(r"rusqlite::(transaction::|Connection::(transaction|savepoint|unchecked_transaction))", r[1] or r[2])})
    ctx.check(not txn_api, "K1-sql-through-txn", "-", "no-rusqlite-transaction-api", "rusqlite's own Transaction/Savepoint API is not used",
              f"rusqlite Transaction/Savepoint API used in {txn_api}: commits the rule cannot see")

    # the transaction object exists only after BEGIN succeeded, and only IdlSqlite::write makes one
    wb = Body(wrec)
    begins = [c for c in wb.calls(is_conn_stmt) if any(re.search(r"^\s*BEGIN\b", t, re.I) for t in sql_texts(c))]
    ctors = [n for n in walk(wrec["body"]) if n.get("e") == "struct" and n["path"].get("def") == W_STRUCT]
    ctx.check(bool(begins) and bool(ctors) and all(wb.site_gates(s) & {id(x) for x in begins} for s in ctors),
              "K1-sql-through-txn", W_NEW, "begin-gates-construction",
              "IdlSqliteWriteTransaction is constructed only after BEGIN returned Ok",
              "IdlSqliteWriteTransaction::new can construct the transaction object without a successful BEGIN: statements would autocommit one by one",
              file=wrec["file"], line=wrec["line"])
    others = []
    for name in F.fns_mentioning(LIB, W_STRUCT):
        if name == W_NEW:
            continue
        rec = F.fn(LIB, name)
        if any(n.get("e") == "struct" and n["path"].get("def") == W_STRUCT for n in walk(rec["body"])):
            others.append(name)
    ctx.check(not others, "K1-sql-through-txn", W_NEW, "only-constructor", "IdlSqliteWriteTransaction is constructed only in ::new",
              f"IdlSqliteWriteTransaction is also constructed in {others}, bypassing BEGIN EXCLUSIVE", file=wrec["file"], line=wrec["line"])
    new_callers = sorted({strip_closure(r[0]) for r in F.calls(LIB) if W_NEW in (r[1], r[2])})
    ctx.check(new_callers == [DB_WRITE], "K1-sql-through-txn", W_NEW, "only-caller",
              "IdlSqliteWriteTransaction::new is called only by IdlSqlite::write",
              f"IdlSqliteWriteTransaction::new is called from {new_callers}; expected only IdlSqlite::write (one write transaction per pooled connection, taken by the id layer)",
              file=wrec["file"], line=wrec["line"])
    grec = ctx.fn(LIB, W_GET_CONN)
    ctx.check(any(n.get("e") == "field" and n.get("f") == "conn" and "IdlSqliteWriteTransaction" in n.get("xty", "") for n in walk(grec["body"])),
              "K1-sql-through-txn", W_GET_CONN, "returns-own-connection", "get_conn returns the transaction's own `conn`",
              "get_conn of IdlSqliteWriteTransaction no longer returns its own `conn` field (shape not understood)", file=grec["file"], line=grec["line"])

    # ---- (ii) ts_max and RUV are written before, and inside, the storage commit ---------------------
    def ts_arg(b, call):
        toks = b.flow_tokens(call["args"][0]) if call.get("args") else set()
        ctx.check("field:ts" in toks and "param:0" in toks, "K6-persist-before-commit", T.QS_COMMIT, "ts_max-argument-is-txn-cid-ts",
                  "set_db_ts_max receives the `ts` of the transaction's own change id",
                  f"set_db_ts_max's argument is not the transaction's cid.ts (flows from {sorted(t for t in toks if not t.startswith('lit:'))[:6]})",
                  file=b.rec["file"], line=call.get("line"))
    T.persisted_before_commit(ctx, "K6-persist-before-commit", T.QS_COMMIT, T.BE_SET_TS, T.BE_COMMIT, "ts_max", ts_arg)
    T.persisted_before_commit(ctx, "K6-persist-before-commit", T.BE_COMMIT, T.ARC_WRITE_RUV, T.ARC_COMMIT, "ruv")

    def sql_on(table):
        def pred(b):
            return any(is_conn_stmt(c) and via_get_conn(b, c) and any(table in t for t in sql_texts(c)) for c in b.calls(skip_exp=False))
        return pred
    T.delegation_chain(ctx, "K6-persist-before-commit", [T.BE_SET_TS, T.ARC_SET_TS, T.SQL_SET_TS], "ts_max", sql_on("db_op_ts"),
                       "writes table db_op_ts through get_conn()")
    T.delegation_chain(ctx, "K6-persist-before-commit", [T.ARC_WRITE_RUV, T.SQL_WRITE_RUV], "ruv", sql_on(".ruv"),
                       "writes table ruv through get_conn()")

    # ---- (iii) startup ------------------------------------------------------------------------
    T.startup_seed(ctx, "K6-startup-seed")

    # ---- (iv) WAL --------------------------------------------------------------------------------
    nrec = ctx.fn(LIB, DB_NEW)
    nb = Body(nrec)
    settings = []        # (node, mode) in source order
    for c in nb.calls(is_conn_stmt, skip_exp=False):
        nm = last_seg(callee_of(c))
        texts = sql_texts(c)
        if nm == "pragma_update":
            lits = [lit_text(a) for x in c["args"] for a in walk(x) if lit_text(a) is not None]
            if "journal_mode" in lits:
                modes = [x for x in lits if x != "journal_mode"]
                settings.append((c, modes[0].upper() if modes else "?"))
        else:
            for t in texts:
                for m in re.finditer(r"journal_mode\s*=\s*(\w+)", t, re.I):
                    settings.append((c, m.group(1).upper()))
    ctx.floor("K8-journal-wal", "journal_mode settings in IdlSqlite::new", len(settings), 2)
    ctx.sample("IdlSqlite::new journal_mode settings in source order: " + ", ".join(f"{m}@{c.get('line')}" for c, m in settings))
    uncond = [c for c, m in settings if m == "WAL" and nb._unconditional_below(c, nb.root)]
    ctx.check(bool(uncond), "K8-journal-wal", DB_NEW, "wal-set-unconditionally",
              "journal_mode=WAL is set on every open",
              f"IdlSqlite::new does not set journal_mode=WAL unconditionally (settings found: {[m for _, m in settings]}): rollback-journal mode changes the crash/concurrency behaviour the design relies on",
              file=nrec["file"], line=nrec["line"])
    for c, m in settings:
        if m == "WAL":
            continue
        later = [c2 for c2, m2 in settings if m2 == "WAL" and nb.precedes(c, c2)]
        ctx.check(bool(later), "K8-journal-wal", DB_NEW, f"temporary-mode-{m}-restored-to-wal",
                  f"journal_mode={m} is followed by journal_mode=WAL on the same path",
                  f"journal_mode={m} (line {c.get('line')}) is not followed by a journal_mode=WAL setting on the same path: the database would stay out of WAL mode",
                  file=nrec["file"], line=c.get("line"))
