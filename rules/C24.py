"""C24 Writes need matching grants; protected objects stay protected — clause: every write operation is gated by its
access decision, the decision functions fail closed, and the protected-class tables keep their content (K3/K4/K8).

Decided (DESIGN.md C24):
 (a) K3-gate      create / modify_pre_apply / batch_modify / delete / revive_recycled: every backend write (and every
                  ModifyPartial, the only input of modify_apply) is dominated by `<op>_allow_operation(..)? == true`,
                  and the false branch returns Err(AccessDenied); ModifyPartial has no other producer;
 (b) K3-per-entry modify_allow_operation_per_entry returns true only under ¬∃ Purged(class), ¬(pres ∅ ∧ rem ∅) and — in the
                  Allow arm — with a decision flag cleared by each of the four `!requested.is_subset(allowed)` tests, each
                  requested set paired with the matching allowed set; a Deny decision gives false;
 (c) K4-classify  the classification closures: Present|Set|Assert → requested-present, Removed|Purged|Set → requested-removed;
                  class additions come from Present(class)/Set(class) diff, removals from Removed(class)/Set(class) diff;
 (d) K4-ident     modify_ident_test, create_filter_entry, delete_filter_entry: scope ReadOnly|Synchronise ⇒ Deny and origin
                  Synch ⇒ Deny (the three siblings agree); both protected_filter_entry: Synch ⇒ Deny;
 (e) K4-combiner  apply_modify_access / apply_create_access / apply_delete_access: every module's Deny sets the single deny flag,
                  nothing clears it, every non-Deny result is constructed under `!denied`;
 (f) K3-empty     modify_protected_entry_attrs returns Constrain only under `!constrain_attrs.is_empty()` (else Deny) — the combiner
                  reads an empty constraint as "unconstrained"; modify_sync_constrain's constraint set starts non-empty and is never
                  shrunk; LOCKED classes ⇒ Deny;
 (g) K8-tables    PROTECTED_MOD_PRES ⊇ PROTECTED_MOD_REM, PRES \\ REM = {Recycled}, LOCKED ⊇ {Tombstone}, each table ⊇ its content on the
                  pinned tree (evaluated from the statics' HIR initialisers); the combiners strip the PRES/REM tables from the allowed
                  class sets and the protected filters deny on PROTECTED_ENTRY_CLASSES.
 (h) K5-profile-fields  every field of AccessControlCreate / AccessControlModify / AccessControlProfile is parsed from its own stored attribute; the two class
                  lists fall back to acp_modify_class only (lib/x_fields.py).
Not decided: grant arithmetic over arbitrary profile sets (receiver/target matching, union of grants) against a reference model.
"""
from .lib.hir import *
from .lib.pathcond import site_conditions, implied, collect_binds, lit_has, render, blocked, render_blocked
from .lib.x_g5 import (crates_with, struct_needle, Flow, Binds, result_exprs, core_of, peel, local_id, user_nodes, module_matches,
                       arm_variants, bool_assign, pattern_locals, check_combiner, StaticEval, Unevaluable, under_false_guard)

META = dict(
    technique="static gate / decision-table check on type-checked HIR (sink path conditions, arm tables, decision-flag combiners) plus evaluation of the protected-class statics",
    level_text="Exhaustive structural check of the five write operations, the per-entry modify decision, the identity tables of the three "
               "access modules, the three Deny-dominates combiners and the five protected-class tables: no backend write happens without a "
               "true access decision, read-only and synchronisation identities are denied, and the protected tables keep their content. "
               "A necessary clause of the write-authorisation property; the tests script a few profile/modlist combinations per operation.",
    level_note="Decides the gate / fail-closed / table clause only. Not decided: grant arithmetic over arbitrary profiles against a reference "
               "model. Trusted: rustc name resolution/types, the rule tables (expected table contents frozen from the pinned tree).",
)

LIB = "kanidmd_lib"
ACT = "kanidmd_lib::server::access::AccessControlsTransaction::"
QSW = "<impl server::QueryServerWriteTransaction<'_>>::"
BEW = "kanidmd_lib::be::BackendWriteTransaction::<'a>::"
BE_WRITERS = {BEW + n for n in ("create", "modify", "refresh", "incremental_apply", "reap_tombstones", "restore")}
MP = "kanidmd_lib::server::modify::ModifyPartial"
MODIFY = "kanidmd_lib::modify::Modify"
EC = "kanidmd_lib::constants::entries::EntryClass::"

OPS = [
    # (function, allow operation, minimum number of gated sinks)
    ("kanidmd_lib::server::create::" + QSW + "create", "create_allow_operation", 1),
    ("kanidmd_lib::server::modify::" + QSW + "modify_pre_apply", "modify_allow_operation", 1),
    ("kanidmd_lib::server::batch_modify::" + QSW + "batch_modify", "batch_modify_allow_operation", 1),
    ("kanidmd_lib::server::delete::" + QSW + "delete", "delete_allow_operation", 2),
    ("kanidmd_lib::server::recycle::" + QSW + "revive_recycled", "modify_allow_operation", 2),
]

EXPECT_TABLES = {
    "PROTECTED_ENTRY_CLASSES": {"System", "DomainInfo", "SystemInfo", "SystemConfig", "DynGroup", "SyncObject", "Tombstone", "Recycled"},
    "PROTECTED_MOD_ENTRY_CLASSES": {"System", "DomainInfo", "SystemInfo", "SystemConfig", "DynGroup", "Tombstone", "Recycled"},
    "PROTECTED_MOD_PRES_ENTRY_CLASSES": {"System", "DomainInfo", "SystemInfo", "SystemConfig", "DynGroup", "SyncObject", "Tombstone", "Recycled"},
    "PROTECTED_MOD_REM_ENTRY_CLASSES": {"System", "DomainInfo", "SystemInfo", "SystemConfig", "DynGroup", "SyncObject", "Tombstone"},
    "LOCKED_ENTRY_CLASSES": {"Tombstone"},
}
PROT = "kanidmd_lib::server::access::protected::"


def is_local_expr(leaf, loc):
    return leaf[1] == "expr" and local_id(leaf[2]) == loc


def gate(ctx, F, fname, allow, floor):
    fn = ctx.fn(LIB, fname)
    body = fn["body"]
    allow_path = ACT + allow
    pb = collect_binds(body)

    def is_sink(x):
        if x.get("e") == "mcall" and (callee_of(x) in BE_WRITERS):
            return True
        return x.get("e") == "struct" and x["path"].get("def") == MP
    sites = site_conditions(body, is_sink)
    ctx.floor("K3-gate", f"write sinks in {short(fname, 1)}", len(sites), floor)
    seen = {}
    for (s, conds) in sites:
        lits = implied(conds, pb)
        nm = short(callee_of(s), 1) if s.get("e") == "mcall" else "ModifyPartial"
        seen[nm] = seen.get(nm, 0) + 1
        ok = lit_has(lits, True, "call", allow_path, leaf_kind="expr")
        ctx.check(ok, "K3-gate", fn["fn"], f"gated:{nm}#{seen[nm]}",
                  f"{nm} dominated by {allow}(..)? == true",
                  f"{short(fname, 1)}: {'be_txn.' + nm if nm != 'ModifyPartial' else 'the ModifyPartial handed to modify_apply'} is reachable without "
                  f"`{allow}(..)?` having returned true (path condition: {[r for r in render(lits) if 'allow' in r or 'Denied' in r][:4]}): the write is not authorised",
                  file=fn["file"], line=s.get("line"))
        ctx.sample(f"{fn['file']}:{s.get('line')} {short(fname, 1)} :: {nm} under {allow}()==true")
    # false => AccessDenied
    dead = under_false_guard(body)

    def is_denied_ret(x):
        return x.get("e") == "ret" and id(x) not in dead and bool(constructs(x, "OperationError::AccessDenied"))
    rsites = site_conditions(body, is_denied_ret)
    ok = False
    for (s, conds) in rsites:
        lits = implied(conds, pb)
        if lit_has(lits, False, "call", allow_path, leaf_kind="expr"):
            ok = True
    ctx.check(ok, "K3-gate", fn["fn"], f"denied-returns:AccessDenied", f"!{allow}(..) => Err(AccessDenied)",
              f"{short(fname, 1)} has no `return Err(AccessDenied)` under `{allow}(..)? == false`", file=fn["file"], line=fn["line"])
    return fn


def arm_result(arm_body, enum_prefix):
    """Variants of `enum_prefix` constructed in an arm body (user code)."""
    out = set()
    for n in user_nodes(arm_body):
        d = def_of(n)
        if d.startswith(enum_prefix + "::") and n.get("e") in ("path", "call", "struct"):
            out.add(d[len(enum_prefix) + 2:])
    return out


def ident_tables(ctx, fn, result_enum, need_scope=True):
    body = fn["body"]
    got_scope = got_origin = False
    for m in user_nodes(body):
        if m.get("e") != "match" or m.get("src") != "Normal":
            continue
        sc = unwrap(m["scrut"])
        is_scope = sc.get("e") == "mcall" and callee_of(sc).endswith("identity::Identity::access_scope")
        is_origin = sc.get("e") == "field" and sc.get("f") == "origin" and "IdentType" in m.get("scrut_ty", "")
        if not (is_scope or is_origin):
            continue
        for a in m["arms"]:
            vs = arm_variants(a)
            res = arm_result(a["body"], result_enum)
            for v in vs:
                nm = short(v, 1)
                if is_scope and nm in ("ReadOnly", "Synchronise"):
                    got_scope = True
                    ctx.check(res == {"Deny"}, "K4-ident", fn["fn"], f"scope:{nm}=>Deny", f"AccessScope::{nm} => Deny",
                              f"{short(fn['fn'], 2)}: the arm for access scope {nm} yields {sorted(res) or 'nothing'} instead of Deny: "
                              f"a {'read-only' if nm == 'ReadOnly' else 'synchronise'} session could write",
                              file=fn["file"], line=a["body"].get("line"))
                if is_origin and v.endswith("IdentType::Synch"):
                    got_origin = True
                    ctx.check(res == {"Deny"}, "K4-ident", fn["fn"], "origin:Synch=>Deny", "IdentType::Synch => Deny",
                              f"{short(fn['fn'], 2)}: the arm for a synchronisation identity yields {sorted(res) or 'nothing'} instead of Deny",
                              file=fn["file"], line=a["body"].get("line"))
            if is_scope and any(short(v, 1) in ("ReadOnly", "Synchronise") for v in vs) and any(short(v, 1) == "ReadWrite" for v in vs):
                ctx.violation("K4-ident", fn["fn"], "scope:mixed-arm", "ReadWrite shares an arm with ReadOnly/Synchronise", file=fn["file"], line=a["body"].get("line"))
    if need_scope:
        ctx.check(got_scope, "K4-ident", fn["fn"], "has-scope-table", "access-scope table present",
                  f"{short(fn['fn'], 2)} has no `match ident.access_scope()` with ReadOnly/Synchronise arms (siblings disagree)", file=fn["file"], line=fn["line"])
    ctx.check(got_origin, "K4-ident", fn["fn"], "has-origin-table", "origin table present",
              f"{short(fn['fn'], 2)} has no `match ident.origin` arm for IdentType::Synch", file=fn["file"], line=fn["line"])


def run(ctx):
    _run_main(ctx)
    profile_fields_parsed_from_their_attributes(ctx)
    acp_cache_refreshed_everywhere(ctx)


def _run_main(ctx):
    F = ctx.facts
    ctx.explanation = ("Write gates: each of the five write operations performs its backend write only after its allow-operation returned true; "
                       "the per-entry modify decision needs no purge of class, at least one change and four subset tests; identity tables deny "
                       "read-only/synchronise scopes and sync origins; Deny dominates in the three combiners; protected tables keep their content.")

    # ---- (a) gates ---------------------------------------------------------------------------------
    for (fname, allow, floor) in OPS:
        gate(ctx, F, fname, allow, floor)
    # ModifyPartial producers
    prods = set()
    for crate in crates_with(F, struct_needle(MP), "hir"):
        for n in F.fns_mentioning(crate, struct_needle(MP)):
            d = F.fn(crate, n)
            if d.get("kind") in ("fn", "assocfn") and any(x.get("e") == "struct" and x["path"].get("def") == MP for x in walk(d["body"])):
                prods.add(d["fn"])
    gated = {o[0] for o in OPS}
    for p in sorted(prods):
        ctx.check(p in gated, "K3-gate", p, "produces:ModifyPartial", "ModifyPartial built in a gated operation",
                  f"{p} builds a ModifyPartial (input of modify_apply → be_txn.modify) outside the gated operations")
    ctx.floor("K3-gate", "ModifyPartial producers", len(prods), 2)
    ma = ctx.fn(LIB, "kanidmd_lib::server::modify::" + QSW + "modify_apply")
    mp_param = [p for p in ma["params"] if "ModifyPartial" in p["ty"]]
    writes = [c for c in walk(ma["body"]) if c.get("e") == "mcall" and callee_of(c) in BE_WRITERS]
    ctx.check(len(mp_param) == 1 and len(writes) == 1 and callee_of(writes[0]) == BEW + "modify", "K3-gate", ma["fn"], "writes-from:ModifyPartial",
              "modify_apply(ModifyPartial) performs exactly one be_txn.modify", "modify_apply no longer takes a ModifyPartial / performs exactly one be_txn.modify",
              file=ma["file"], line=ma["line"])
    # modify_allow_operation / batch: all(per_entry)
    for nm in ("modify_allow_operation", "batch_modify_allow_operation"):
        fn = ctx.fn(LIB, ACT + nm)
        b = Binds(fn["body"])
        oks = [core_of(x, b) for (x, k) in result_exprs(fn["body"]) if not (peel(x).get("e") == "call" and callee_of(peel(x)) == "core::result::Result::Err")]
        good = len(oks) >= 1
        for c in oks:
            if not (c.get("e") == "mcall" and is_call_to(c, "Iterator::all")):
                good = False
                continue
            cl = unwrap(c["args"][0])
            tails = [core_of(x, Binds(cl["body"])) for (x, k) in result_exprs(cl["body"])] if cl.get("e") == "closure" else []
            for t in tails:
                tt = peel(t)
                if tt.get("e") == "lit" and tt.get("v") == "false":
                    continue
                if not (tt.get("e") == "mcall" and callee_of(tt) == ACT + "modify_allow_operation_per_entry"):
                    good = False
            if not any(peel(t).get("e") == "mcall" for t in tails):
                good = False
        ctx.check(good, "K3-gate", fn["fn"], "all:per-entry", f"{nm} = entries.all(per_entry)",
                  f"{nm} no longer returns Ok(entries.iter().all(|e| modify_allow_operation_per_entry(..)))", file=fn["file"], line=fn["line"])
    for nm, apply_fn, res_enum in (("create_allow_operation", "kanidmd_lib::server::access::create::apply_create_access", "kanidmd_lib::server::access::create::CreateResult"),
                                   ("delete_allow_operation", "kanidmd_lib::server::access::delete::apply_delete_access", "kanidmd_lib::server::access::delete::DeleteResult")):
        fn = ctx.fn(LIB, ACT + nm)
        ms = [m for m in user_nodes(fn["body"]) if m.get("e") == "match" and callee_of(unwrap(m["scrut"])) == apply_fn]
        ctx.check(len(ms) == 1, "K4-decision", fn["fn"], "decision-match", "one match over the combiner", f"expected one match over {short(apply_fn, 1)}", file=fn["file"], line=fn["line"])
        for m in ms:
            for a in m["arms"]:
                for v in arm_variants(a):
                    if v == res_enum + "::Deny":
                        t = peel(a["body"])
                        ctx.check(t.get("e") == "lit" and t.get("v") == "false", "K4-decision", fn["fn"], "Deny:false", "Deny => false",
                                  f"{nm}: the Deny arm is `{ex_s(t)[:60]}`, not `false`", file=fn["file"], line=a["body"].get("line"))
                    if v == res_enum + "::Allow":
                        # pres / pres_cls subset tests (create)
                        check_flag_arm(ctx, fn, a, {"pres", "pres_cls"}, "K4-decision")

    # ---- (b)+(c) per-entry decision ------------------------------------------------------------------
    per_entry(ctx, F)

    # ---- (d) identity tables -------------------------------------------------------------------------
    ABR = "kanidmd_lib::server::access::AccessBasicResult"
    ident_tables(ctx, ctx.fn(LIB, "kanidmd_lib::server::access::modify::modify_ident_test"), ABR)
    ident_tables(ctx, ctx.fn(LIB, "kanidmd_lib::server::access::create::create_filter_entry"), "kanidmd_lib::server::access::create::IResult")
    ident_tables(ctx, ctx.fn(LIB, "kanidmd_lib::server::access::delete::delete_filter_entry"), "kanidmd_lib::server::access::delete::IResult")
    ident_tables(ctx, ctx.fn(LIB, "kanidmd_lib::server::access::create::protected_filter_entry"), "kanidmd_lib::server::access::create::IResult", need_scope=False)
    ident_tables(ctx, ctx.fn(LIB, "kanidmd_lib::server::access::delete::protected_filter_entry"), "kanidmd_lib::server::access::delete::IResult", need_scope=False)

    # ---- (e) combiners ---------------------------------------------------------------------------------
    amod = ctx.fn(LIB, "kanidmd_lib::server::access::modify::apply_modify_access")
    acre = ctx.fn(LIB, "kanidmd_lib::server::access::create::apply_create_access")
    adel = ctx.fn(LIB, "kanidmd_lib::server::access::delete::apply_delete_access")
    check_combiner(ctx, "K4-combiner", amod, "kanidmd_lib::server::access::modify::ModifyResult", 5)
    check_combiner(ctx, "K4-combiner", acre, "kanidmd_lib::server::access::create::CreateResult", 4)
    check_combiner(ctx, "K4-combiner", adel, "kanidmd_lib::server::access::delete::DeleteResult", 2)
    for fn, mods in ((amod, ("modify_ident_test", "modify_protected_attrs", "modify_sync_constrain", "modify_pres_test", "modify_migration_attrs")),
                     (acre, ("protected_filter_entry", "create_filter_entry", "migration_filter_entry", "message_queue")),
                     (adel, ("protected_filter_entry", "delete_filter_entry"))):
        have = {short(c, 1) for (_, c) in module_matches(fn["body"])}
        for mname in mods:
            ctx.check(mname in have, "K4-combiner", fn["fn"], f"combines:{mname}", f"{mname} is combined",
                      f"{short(fn['fn'], 1)} no longer consults {mname}", file=fn["file"], line=fn["line"])

    # ---- (f) empty constraint / locked ---------------------------------------------------------------------
    AMR = "kanidmd_lib::server::access::AccessModResult"
    mpe = ctx.fn(LIB, "kanidmd_lib::server::access::modify::modify_protected_entry_attrs")
    sites = site_conditions(mpe["body"], lambda x: x.get("e") == "struct" and x["path"].get("def") == AMR + "::Constrain")
    ctx.floor("K3-empty", "Constrain results in modify_protected_entry_attrs", len(sites), 1)
    for (s, conds) in sites:
        lits = implied(conds, collect_binds(mpe["body"]))
        set_locals = set()
        for f in s["fields"]:
            if f["f"] in ("pres_attr", "rem_attr"):
                x = peel(f["x"])
                if x.get("e") == "mcall" and x["name"] == "clone":
                    x = peel(x["recv"])
                if local_id(x) is not None:
                    set_locals.add(local_id(x))
        ok = len(set_locals) == 1
        if ok:
            L0 = next(iter(set_locals))
            ok = any((not pol) and leaf[1] == "expr" and unwrap(leaf[2]).get("e") == "mcall" and unwrap(leaf[2])["name"] == "is_empty"
                     and local_id(unwrap(leaf[2])["recv"]) == L0 for (pol, leaf) in lits.values())
        ctx.check(ok, "K3-empty", mpe["fn"], "Constrain-under:non-empty", "Constrain{attrs} only under !attrs.is_empty()",
                  "modify_protected_entry_attrs can return an empty Constrain: apply_modify_access reads an empty constraint set as unconstrained, so a protected "
                  f"entry of an unlisted class would be modifiable within ordinary grants (path condition {render(lits)[:4]})", file=mpe["file"], line=s.get("line"))
    dsites = site_conditions(mpe["body"], lambda x: def_of(x) == AMR + "::Deny" and x.get("e") == "path")
    has_empty_deny = False
    has_locked_deny = False
    for (s, conds) in dsites:
        lits = implied(conds, collect_binds(mpe["body"]))
        for (pol, leaf) in lits.values():
            e = unwrap(leaf[2]) if leaf[1] == "expr" else {}
            if pol and e.get("e") == "mcall" and e.get("name") == "is_empty":
                has_empty_deny = True
            if (not pol) and e.get("e") == "mcall" and e.get("name") == "is_disjoint" and mentions(e, "def", PROT + "LOCKED_ENTRY_CLASSES"):
                has_locked_deny = True
    ctx.check(has_empty_deny, "K3-empty", mpe["fn"], "empty=>Deny", "no contributing class => Deny", "modify_protected_entry_attrs no longer returns Deny when no class contributed an attribute",
              file=mpe["file"], line=mpe["line"])
    ctx.check(has_locked_deny, "K3-empty", mpe["fn"], "locked=>Deny", "LOCKED_ENTRY_CLASSES => Deny", "modify_protected_entry_attrs no longer denies entries carrying a LOCKED_ENTRY_CLASSES class (tombstones)",
              file=mpe["file"], line=mpe["line"])
    mpa = ctx.fn(LIB, "kanidmd_lib::server::access::modify::modify_protected_attrs")
    calls_inner = [c for c in user_nodes(mpa["body"]) if c.get("e") == "call" and callee_of(c) == mpe["fn"]]
    isites = site_conditions(mpa["body"], lambda x: def_of(x) == AMR + "::Ignore" and x.get("e") == "path")
    bad = []
    for (s, conds) in isites:
        lits = implied(conds, {})
        # Ignore for a User identity only if the entry is outside the system range AND disjoint from PROTECTED_MOD_ENTRY_CLASSES, or has no class
        user_arm = any(pol and leaf[1] == "arm" and "IdentType::User" in " ".join(tokens(leaf[2][1])) for (pol, leaf) in lits.values())
        if not user_arm:
            continue
        disj = any(pol and leaf[1] == "expr" and mentions(leaf[2], "def", PROT + "PROTECTED_MOD_ENTRY_CLASSES") and mentions(leaf[2], "call", "is_disjoint")
                   for (pol, leaf) in lits.values())
        nocls = any((not pol) and leaf[1] == "let" for (pol, leaf) in lits.values())
        if not (disj or nocls):
            bad.append(s)
    ctx.check(len(calls_inner) >= 1 and not bad, "K3-empty", mpa["fn"], "protected-entries-use-ruleset",
              "User identities: Ignore only when disjoint from PROTECTED_MOD_ENTRY_CLASSES, else modify_protected_entry_attrs",
              "modify_protected_attrs ignores a protected entry for a user identity without the PROTECTED_MOD_ENTRY_CLASSES disjointness test",
              file=mpa["file"], line=bad[0].get("line") if bad else mpa["line"])
    msc = ctx.fn(LIB, "kanidmd_lib::server::access::modify::modify_sync_constrain")
    cs = [x for x in user_nodes(msc["body"]) if x.get("e") == "struct" and x["path"].get("def") == AMR + "::Constrain"]
    ctx.floor("K3-empty", "Constrain results in modify_sync_constrain", len(cs), 1)
    for s in cs:
        set_locals = set()
        for f in s["fields"]:
            if f["f"] in ("pres_attr", "rem_attr"):
                x = peel(f["x"])
                if x.get("e") == "mcall" and x["name"] == "clone":
                    x = peel(x["recv"])
                set_locals.add(local_id(x))
        ok = len(set_locals) == 1 and None not in set_locals
        n_ins = 0
        if ok:
            L0 = next(iter(set_locals))
            inits = [st for st in walk(msc["body"]) if st.get("s") == "let" and st["pat"].get("p") == "bind" and st["pat"].get("local") == L0 and "init" in st]
            ok = len(inits) == 1
            if ok:
                n_ins = len([c for c in walk(inits[0]["init"]) if c.get("e") == "mcall" and c["name"] == "insert"])
                ok = n_ins >= 1
            shr = [c for c in walk(msc["body"]) if c.get("e") == "mcall" and local_id(c["recv"]) == L0 and c["name"] in ("remove", "clear", "retain", "take", "pop_first", "pop_last", "split_off")]
            ok = ok and not shr
        ctx.check(ok, "K3-empty", msc["fn"], "sync-constraint-non-empty", f"sync constraint set starts with {n_ins} attributes and is never shrunk",
                  "modify_sync_constrain's Constrain set may be empty (read as unconstrained by apply_modify_access): a synchronised entry would be fully modifiable",
                  file=msc["file"], line=s.get("line"))

    # ---- (g) protected tables ---------------------------------------------------------------------------
    se = StaticEval(F, LIB)
    tables = {}
    for name, expect in EXPECT_TABLES.items():
        ctx.fn(LIB, PROT + name)
        try:
            v = se.static(PROT + name)
            if v.kind != "list" or not all(x.kind == "variant" and x.name.startswith(EC) for x in v.args):
                raise Unevaluable("not a list of EntryClass variants")
            tables[name] = {x.name[len(EC):] for x in v.args}
        except Unevaluable as ex:
            ctx.violation("K8-tables", PROT + name, "evaluable", f"cannot evaluate the initialiser of {name}: {ex} (fail closed)")
            continue
        got = tables[name]
        ctx.check(expect <= got, "K8-tables", PROT + name, "superset-of-pinned", f"{name} = {sorted(got)}",
                  f"{name} lost {sorted(expect - got)} (has {sorted(got)}): entries of that class are no longer protected")
        ctx.sample(f"{name} = {sorted(got)}")
    if len(tables) == len(EXPECT_TABLES):
        pres, rem, locked = tables["PROTECTED_MOD_PRES_ENTRY_CLASSES"], tables["PROTECTED_MOD_REM_ENTRY_CLASSES"], tables["LOCKED_ENTRY_CLASSES"]
        ctx.check(pres >= rem, "K8-tables", PROT + "PROTECTED_MOD_PRES_ENTRY_CLASSES", "PRES>=REM", "PRES ⊇ REM",
                  f"classes {sorted(rem - pres)} may not be removed but may be added")
        ctx.check(pres - rem == {"Recycled"}, "K8-tables", PROT + "PROTECTED_MOD_REM_ENTRY_CLASSES", "PRES-REM={Recycled}", "PRES \\ REM = {Recycled}",
                  f"PRES \\ REM = {sorted(pres - rem)}: only `recycled` may be removable-but-not-addable (revive)")
        ctx.check("Tombstone" in locked, "K8-tables", PROT + "LOCKED_ENTRY_CLASSES", "LOCKED>={Tombstone}", "LOCKED ⊇ {Tombstone}", "tombstones are no longer locked")
    # uses
    for fn, table, field in ((amod, "PROTECTED_MOD_PRES_ENTRY_CLASSES", "pres_cls"), (amod, "PROTECTED_MOD_REM_ENTRY_CLASSES", "rem_cls"),
                             (acre, "PROTECTED_MOD_PRES_ENTRY_CLASSES", "pres_cls")):
        ok = False
        res_structs = [x for x in user_nodes(fn["body"]) if x.get("e") == "struct" and x["path"].get("def", "").endswith("Result::Allow")]
        tgt = {local_id(f["x"]) for s in res_structs for f in s["fields"] if f["f"] == field}
        for lp in walk(fn["body"]):
            if lp.get("e") == "match" and "ForLoopDesugar" in lp.get("src", "") and mentions(lp["scrut"], "def", PROT + table):
                rem = [c for c in walk(lp["arms"]) if c.get("e") == "mcall" and c["name"] == "remove" and local_id(c["recv"]) in tgt and local_id(c["recv"]) is not None]
                if rem:
                    ok = True
        ctx.check(ok, "K8-tables", fn["fn"], f"strips:{table}->{field}", f"{field} has {table} removed",
                  f"{short(fn['fn'], 1)} no longer removes {table} from the allowed `{field}` set: a grant could add/remove a protected class",
                  file=fn["file"], line=fn["line"])
    for fname in ("kanidmd_lib::server::access::create::protected_filter_entry", "kanidmd_lib::server::access::delete::protected_filter_entry"):
        fn = ctx.fn(LIB, fname)
        res_enum = fname.rsplit("::", 1)[0] + "::IResult"
        isites = site_conditions(fn["body"], lambda x: def_of(x) == res_enum + "::Deny" and x.get("e") == "path")
        ok = False
        for (s, conds) in isites:
            lits = implied(conds, {})
            if any((not pol) and leaf[1] == "expr" and mentions(leaf[2], "def", PROT + "PROTECTED_ENTRY_CLASSES") and mentions(leaf[2], "call", "is_disjoint")
                   for (pol, leaf) in lits.values()):
                ok = True
        ctx.check(ok, "K8-tables", fn["fn"], "denies:PROTECTED_ENTRY_CLASSES", "!disjoint(PROTECTED_ENTRY_CLASSES) => Deny",
                  f"{short(fname, 2)} no longer denies entries carrying a PROTECTED_ENTRY_CLASSES class", file=fn["file"], line=fn["line"])
    ctx.exhaustive = True


# ---------------------------------------------------------------------------------------------------------

def check_flag_arm(ctx, fn, arm, fields, rule):
    """Allow{f1, f2, ..} => { let mut d = true; if !req_i.is_subset(&f_i) { d = false } ...; d }.
    Returns {field: receiver local}."""
    bound = {}
    for loc, path in pattern_locals(arm["pat"]).items():
        if path and path[-1][0] == "field":
            bound[loc] = path[-1][1]
    body = peel(arm["body"])
    if not (body.get("e") == "blockexpr" and "tail" in body["b"]):
        ctx.violation(rule, fn["fn"], "Allow:shape", "the Allow arm is not a block ending in the decision flag", file=fn["file"], line=arm["body"].get("line"))
        return {}
    D = local_id(body["b"]["tail"])
    inits = [s for s in body["b"]["stmts"] if s.get("s") == "let" and s["pat"].get("p") == "bind" and s["pat"].get("local") == D]
    ok = D is not None and len(inits) == 1 and unwrap(inits[0].get("init", {})).get("v") == "true"
    if not ctx.check(ok, rule, fn["fn"], "Allow:decision-flag", "Allow arm yields a flag initialised true",
                     f"the Allow arm yields `{ex_s(body['b']['tail'])[:60]}`, not a decision flag initialised `true` in the arm", file=fn["file"], line=arm["body"].get("line")):
        return {}
    sets = [n for n in walk(body) if n.get("e") in ("assign", "assignop") and local_id(n["l"]) == D]
    bad = [n for n in sets if not (n.get("e") == "assign" and unwrap(n["r"]).get("v") == "false")]
    ctx.check(not bad, rule, fn["fn"], "Allow:flag-monotone", "decision flag only ever cleared",
              "the decision flag is set back to a non-false value after a failed subset test", file=fn["file"], line=bad[0].get("line") if bad else None)
    got = {}
    for st in body["b"]["stmts"]:
        if st.get("s") != "expr":
            continue
        x = unwrap(st["x"])
        if x.get("e") != "if" or "else" in x and unwrap(x["else"]).get("e") not in (None,):
            continue
        c = unwrap(x["cond"])
        if not (c.get("e") == "un" and c.get("op") == "Not"):
            continue
        t = peel(c["x"])
        if not (t.get("e") == "mcall" and t["name"] == "is_subset" and len(t["args"]) == 1):
            continue
        f = bound.get(local_id(t["args"][0]))
        clears = [n for n in walk(x["then"]) if n.get("e") == "assign" and local_id(n["l"]) == D and unwrap(n["r"]).get("v") == "false"]
        if f and clears and local_id(t["recv"]) is not None:
            got[f] = local_id(t["recv"])
    for f in sorted(fields):
        ctx.check(f in got, rule, fn["fn"], f"Allow:subset-test:{f}", f"!requested.is_subset(&{f}) => false",
                  f"{short(fn['fn'], 1)}: the Allow arm has no unconditional `if !requested.is_subset(&{f}) {{ decision = false }}` test: "
                  f"requested changes outside the granted `{f}` set would be accepted", file=fn["file"], line=arm["body"].get("line"))
    if len(set(got.values())) != len(got):
        ctx.violation(rule, fn["fn"], "Allow:distinct-requested-sets", "two subset tests use the same requested set", file=fn["file"], line=arm["body"].get("line"))
    return got


def classify_table(cl):
    """closure `|m| match m { pats => Some(..)|None }` -> ({variants -> Some}, {variants -> None})"""
    some, none = set(), set()
    for m in walk(cl["body"]):
        if m.get("e") == "match" and m.get("src") == "Normal" and "modify::Modify" in m.get("scrut_ty", ""):
            for a in m["arms"]:
                vs = {short(v, 1) for v in arm_variants(a) if v.startswith(MODIFY + "::")}
                t = peel(a["body"])
                if t.get("e") == "call" and t.get("ctor") == "core::option::Option::Some":
                    some |= vs
                elif def_of(t) == "core::option::Option::None":
                    none |= vs
                else:
                    return None
            return some, none
    return None


def per_entry(ctx, F):
    fn = ctx.fn(LIB, ACT + "modify_allow_operation_per_entry")
    body = fn["body"]
    R = "K3-per-entry"
    MR = "kanidmd_lib::server::access::modify::ModifyResult"
    b = Binds(body)
    pb = collect_binds(body)
    # decision match
    ms = [m for m in user_nodes(body) if m.get("e") == "match" and callee_of(unwrap(m["scrut"])) == "kanidmd_lib::server::access::modify::apply_modify_access"]
    if not ctx.check(len(ms) == 1, R, fn["fn"], "decision-match", "one match over apply_modify_access", f"expected one match over apply_modify_access, found {len(ms)}",
                     file=fn["file"], line=fn["line"]):
        return
    m = ms[0]
    res = result_exprs(body)
    # every result is `false`, or comes out of the decision match
    in_match = {id(x) for x in walk(m)}
    n_pos = 0
    for (x, kind) in res:
        t = peel(x)
        if t.get("e") == "lit" and t.get("v") == "false":
            continue
        n_pos += 1
        ctx.check(id(x) in in_match or id(t) in in_match, R, fn["fn"], f"result-from-decision:{kind}#{n_pos}", "non-false results come from the decision match",
                  f"modify_allow_operation_per_entry returns `{ex_s(t)[:60]}` outside the match over apply_modify_access", file=fn["file"], line=t.get("line"))
    got = {}
    positive = []
    for a in m["arms"]:
        for v in arm_variants(a):
            if v == MR + "::Deny":
                t = peel(a["body"])
                ctx.check(t.get("e") == "lit" and t.get("v") == "false", R, fn["fn"], "Deny:false", "Deny => false",
                          f"the Deny arm is `{ex_s(t)[:60]}`", file=fn["file"], line=a["body"].get("line"))
            elif v == MR + "::Allow":
                got = check_flag_arm(ctx, fn, a, {"pres", "rem", "pres_cls", "rem_cls"}, R)
                positive.append(a["body"])
            else:
                positive.append(a["body"])
    # guards common to every non-false result
    sites = site_conditions(body, lambda x: any(x is p for p in positive))
    ctx.floor(R, "positive decision arms", len(sites), 2)
    for i, (s, conds) in enumerate(sites):
        lits = implied(conds, pb)
        nm = "Allow" if i == len(sites) - 1 and got else f"arm{i + 1}"
        for (pol, leaf) in lits.values():
            if pol and leaf[1] == "arm":
                vs = [t for t in tokens(leaf[2][1]) if t.startswith("def:" + MR + "::")]
                if vs:
                    nm = short(vs[0], 1)
        no_purge = False
        for (pol, leaf) in lits.values():
            if (not pol) and leaf[1] == "expr":
                tk = tokens(leaf[2])
                if has_token(tk, "call", "Iterator::any") and ("def:" + MODIFY + "::Purged") in tk and has_token(tk, "def", "attribute::Attribute::Class"):
                    no_purge = True
        ctx.check(no_purge, R, fn["fn"], f"{nm}:under-no-purge-class", "true only if no Purged(class) in the modlist",
                  f"the {nm} result is reachable when the modlist purges `class` (path condition {render(lits)[:4]}): the class attribute — and with it every protection keyed on classes — could be purged",
                  file=fn["file"], line=s.get("line"))
        if not ({"pres", "rem"} <= set(got)):
            continue        # the subset-test violation above is the root cause; the requested sets cannot be identified
        some_change = False
        for conj in blocked(conds):
            if conj and all(pol and leaf[1] == "expr" and unwrap(leaf[2]).get("e") == "mcall" and unwrap(leaf[2])["name"] == "is_empty" for (pol, leaf) in conj):
                recvs = {local_id(unwrap(leaf[2])["recv"]) for (pol, leaf) in conj}
                if got and recvs <= {got.get("pres"), got.get("rem")} and len(recvs) >= 1:
                    some_change = True
        ctx.check(some_change, R, fn["fn"], f"{nm}:under-some-change", "true only if requested_pres or requested_rem is non-empty",
                  f"the {nm} result is reachable with an empty request (no blocked conjunction `requested_pres.is_empty() && requested_rem.is_empty()`; blocked: {render_blocked(blocked(conds))[:4]})",
                  file=fn["file"], line=s.get("line"))
    # (c) classification of the requested sets
    want = {"pres": {"Present", "Set", "Assert"}, "rem": {"Removed", "Purged", "Set"}}
    for f, need in want.items():
        if f not in got:
            continue        # reported as Allow:subset-test:<f>
        loc = got.get(f)
        got_init = b.lookup(loc) if loc is not None else None
        tbl = None
        if got_init is not None:
            for c in walk(got_init[0]):
                if c.get("e") == "mcall" and is_call_to(c, "Iterator::filter_map") and c["args"] and unwrap(c["args"][0]).get("e") == "closure":
                    tbl = classify_table(unwrap(c["args"][0]))
        ok = tbl is not None and need <= tbl[0]
        ctx.check(ok, "K4-classify", fn["fn"], f"requested-{f}:{'|'.join(sorted(need))}", f"requested {f} set collects {sorted(tbl[0]) if tbl else '?'}",
                  f"the requested-{f} set tested against the allowed `{f}` set collects {sorted(tbl[0]) if tbl else 'an unrecognised table'}; it must include {sorted(need)} — "
                  f"a {'|'.join(sorted(need - (tbl[0] if tbl else set())))} modification would escape the `{f}` grant check", file=fn["file"], line=fn["line"])
    # class sets: extended in Present(class)/Removed(class)/Set(class)
    ext = {}   # local -> set of Modify variants in whose arm it is extended
    for lm in user_nodes(body):
        if lm.get("e") == "match" and lm.get("src") == "Normal" and "modify::Modify" in lm.get("scrut_ty", ""):
            for a in lm["arms"]:
                vs = {short(v, 1) for v in arm_variants(a) if v.startswith(MODIFY + "::")}
                guarded = "guard" in a and mentions(a["guard"], "def", "attribute::Attribute::Class")
                for c in walk(a["body"]):
                    if c.get("e") == "mcall" and c["name"] == "extend" and local_id(c["recv"]) is not None and guarded:
                        ext.setdefault(local_id(c["recv"]), set()).update(vs)
    for f, need in (("pres_cls", {"Present", "Set"}), ("rem_cls", {"Removed", "Set"})):
        if f not in got:
            continue
        loc = got.get(f)
        have = ext.get(loc, set())
        ctx.check(need <= have, "K4-classify", fn["fn"], f"requested-{f}:{'|'.join(sorted(need))}(class)", f"requested {f} classes collected from {sorted(have)}",
                  f"the class set tested against `{f}` is collected from {sorted(have) or 'no'} class modifications; it must include {sorted(need)}(class)",
                  file=fn["file"], line=fn["line"])


# ---------------------------------------------------------------------------------------------------------------------
# The grants a write is checked against are the *loaded* access control profiles. They are only the stored ones if every
# write path - replication included - refreshes them (shared engine rules/lib/x_reload.py, see C31/C34).

def acp_cache_refreshed_everywhere(ctx):
    from .lib.x_reload import check_setting
    check_setting(ctx, "K2-acp-cache-refreshed", "ACP", "reload_accesscontrols",
                  "the loaded access control profiles stay stale on this server: a grant removed (or a protection added) elsewhere is not enforced here",
                  ("EntryClass::AccessControlProfile",))


# ---------------------------------------------------------------------------------------------------------------------
# A grant is what the parser makes of the stored profile: each field of AccessControlCreate / AccessControlModify (and the
# receiver / target of the shared AccessControlProfile) must be read from its own attribute, with the documented
# acp_modify_class fallback for the two class lists and nothing else (shared engine rules/lib/x_fields.py).

PROFILES = "kanidmd_lib::server::access::profiles::"
PROFILE_FIELDS = [
    (PROFILES + "AccessControlCreate::try_from", PROFILES + "AccessControlCreate",
     {"classes": {"AcpCreateClass"}, "attrs": {"AcpCreateAttr"}}),
    (PROFILES + "AccessControlModify::try_from", PROFILES + "AccessControlModify",
     {"presattrs": {"AcpModifyPresentAttr"}, "remattrs": {"AcpModifyRemovedAttr"},
      "pres_classes": {"AcpModifyPresentClass", "AcpModifyClass"}, "rem_classes": {"AcpModifyRemoveClass", "AcpModifyClass"}}),
    (PROFILES + "AccessControlProfile::try_from", PROFILES + "AccessControlProfile",
     {"receiver": {"AcpReceiverGroup"}, "target": {"AcpTargetScope"}}),
]


def profile_fields_parsed_from_their_attributes(ctx):
    from .lib.x_fields import check_field_sources
    n = check_field_sources(ctx, LIB, "K5-profile-fields", PROFILE_FIELDS,
                            "a write is then checked against a grant the administrator did not store (e.g. the class-removal list "
                            "silently inherits the class-addition list)", prefix="Acp")
    ctx.floor("K5-profile-fields", "profile fields traced to their attributes", n, 8)
