"""C04 Failed or abandoned write transactions leave no trace — clause: storage commit precedes and gates every
in-memory publication (K6 + K1).

Decided (DESIGN.md C04):
 (a) K6-publish-after-storage-commit: in every function that both commits storage and publishes in-memory state
     (the "commit functions" of the write transactions) every publication is *gated* by a storage commit: it runs only
     on the Ok continuation of a call that (transitively, must-analysis) reaches the single SQL COMMIT.
     Publications are the concread write-transaction commits (CowCell / ARCache / BptreeMap / HashMap) and every
     function that may reach one ("publisher" summaries are computed over the call facts, not listed).
 (b) K6-publish-infallible: a publisher called after the storage commit cannot fail (no Err, no `?`), so a committed
     transaction is always reported as committed.
 (c) K1-publish-only-at-commit: a cell type that a commit function publishes is published nowhere else
     (no call chain from a root reaches such a publisher without passing through a commit function).
 (d) K1-rollback-on-drop / K1-single-sql-commit: IdlSqliteWriteTransaction implements Drop issuing ROLLBACK, and the
     only SQL COMMIT site in the crate is IdlSqliteWriteTransaction::commit (no rusqlite Transaction API).
 (e) K1-drop-never-publishes: no Drop impl in the server library reaches a publisher.
Not decided: SQLite's own atomicity; state published by means other than concread transactions.
"""
import re
from collections import defaultdict

from .lib.hir import *
from .lib.x_order import Body, last_seg, erase_lifetimes, lit_text, strip_closure

META = dict(
    technique="static order/dominance analysis of the commit functions (gating by the storage commit's Ok continuation) + computed publisher/committer summaries over the compiler's call facts",
    level_text="Structural check over every function that commits storage and publishes in-memory state: each publication (concread CowCell/ARCache/Bptree/HashMap "
               "commit, directly or through wrappers found by summary computation) runs only on the Ok continuation of the storage commit; publishers are unreachable "
               "outside commit functions; abandoning the SQLite write transaction rolls back; exactly one SQL COMMIT site. Tests never make storage fail mid-commit.",
    level_note="Decides the ordering/gating clause, the who-may-publish clause and the rollback-on-drop clause. Not decided: SQLite's atomicity, in-memory state "
               "mutated outside concread transactions, panics between storage commit and publication. Trusted: rustc's call resolution, the combinator semantics table in rules/lib/x_order.py.",
)

LIB = "kanidmd_lib"
OUTER = ("kanidmd_core", "kanidmd.bin")
SQL_COMMIT_FN = "kanidmd_lib::be::idl_sqlite::IdlSqliteWriteTransaction::commit"
SQL_DROP_FN = "kanidmd_lib::<be::idl_sqlite::IdlSqliteWriteTransaction as core::ops::drop::Drop>::drop"
BASE_PUB = re.compile(r"^concread::.*::commit$")
RX_COMMIT_TXT = re.compile(r"\b(COMMIT|END\s+TRANSACTION)\b", re.I)
# "COMMIT"/"commit" as decimal bytes inside the ByteStr literal format_args! is lowered to
RX_COMMIT_BYTES = re.compile(r"\b67, 79, 77, 77, 73, 84\b|\b99, 111, 109, 109, 105, 116\b")


def is_base_pub(n):
    return n.get("e") == "mcall" and any(BASE_PUB.match(c) for c in callee_any(n))


def nice(path):
    """Def-path without generic-argument segments, last two names: `SchemaWriteTransaction::commit`."""
    segs = [x for x in re.split(r"::(?![^<]*>)", path) if x and not x.startswith("<")]
    return "::".join(segs[-2:])


def cell_type(n):
    return erase_lifetimes(n.get("recv_ty") or "?")


def call_graph(F, crate):
    """callee -> {callers} and caller -> {callees}; closures attributed to the enclosing fn."""
    up, down = defaultdict(set), defaultdict(set)
    for (caller, callee, resolved, ln, exp, sty) in F.calls(crate):
        c = strip_closure(caller)
        for t in (callee, resolved):
            if t:
                up[t].add(c)
                down[c].add(t)
    return up, down


class Bodies:
    """Cache of Body objects (one HIR index per function)."""
    def __init__(self, F):
        self.F = F
        self.m = {}

    def get(self, name):
        if name not in self.m:
            rec = self.F.fn(LIB, name)
            self.m[name] = Body(rec) if rec is not None else None
        return self.m[name]


def consumes_self(rec):
    """First parameter is `self` taken by value: the function consumes the transaction object."""
    ps = rec.get("params") or []
    if not ps:
        return False
    p = ps[0]
    pat = p.get("pat", {})
    return pat.get("p") == "bind" and pat.get("name") == "self" and not str(p.get("ty", "")).lstrip().startswith("&")


def storage_committers(bodies, up):
    """Commit functions of write transactions, by must-analysis upwards from the SQL COMMIT site: F consumes `self`,
    and F returns Ok only after a storage committer, called on (a part of) `self`, returned Ok."""
    sc = {SQL_COMMIT_FN}
    changed = True
    while changed:
        changed = False
        cands = set()
        for m in sc:
            cands |= up.get(m, set())
        for caller in sorted(cands - sc):
            b = bodies.get(caller)
            if b is None or not consumes_self(b.rec) or not str(b.rec.get("ret", "")).startswith("core::result::Result<"):
                continue
            for i in b.result_gates():
                n = b.nodes[i]
                if callee_any(n) & sc and n.get("e") == "mcall" and "param:0" in b.flow_tokens(n["recv"]):
                    sc.add(caller)
                    changed = True
                    break
    return sc


def run(ctx):
    F = ctx.facts
    ctx.explanation = ("Every function that commits storage and publishes in-memory state publishes only on the Ok continuation of the storage commit "
                       "(K6, gating by `?`, match/if-let on Ok, and map/and_then chains); publishers of transaction cells are unreachable outside those "
                       "functions (K1); the SQLite write transaction rolls back on Drop and has one COMMIT site; no Drop publishes.")

    # ---- (d) the SQL COMMIT site, ROLLBACK on drop ------------------------------
    commit_rec = ctx.fn(LIB, SQL_COMMIT_FN)
    cb = Body(commit_rec)
    exec_commit = [n for n in cb.calls_to("rusqlite::Connection::execute", "rusqlite::Connection::execute_batch")
                   if any(RX_COMMIT_TXT.search(lit_text(a) or "") for x in n["args"] for a in walk(x))]
    ok = bool(exec_commit) and any(id(n) in cb.result_gates() for n in exec_commit)
    ctx.check(ok, "K1-single-sql-commit", SQL_COMMIT_FN, "commit-statement-gates-ok",
              "Ok return of IdlSqliteWriteTransaction::commit implies `COMMIT TRANSACTION` executed successfully",
              "IdlSqliteWriteTransaction::commit no longer returns Ok only after executing the SQL COMMIT statement successfully (anchor of the whole rule)",
              file=commit_rec["file"], line=commit_rec["line"])
    sql_sites = set()
    for raw_name, raw in F._load_raw(LIB).items():
        if "rusqlite::" in raw and (RX_COMMIT_TXT.search(raw) or RX_COMMIT_BYTES.search(raw)):
            rec = F.fn(LIB, raw_name)
            for c in all_calls(rec["body"]):
                if any(x.startswith("rusqlite::") for x in callee_any(c)):
                    if any(RX_COMMIT_TXT.search(lit_text(a) or "") for x in c.get("args", []) for a in walk(x)):
                        sql_sites.add(raw_name)
    ctx.check(sql_sites == {SQL_COMMIT_FN}, "K1-single-sql-commit", SQL_COMMIT_FN, "only-commit-site",
              "the only SQL COMMIT statement in kanidmd_lib is in IdlSqliteWriteTransaction::commit",
              f"SQL COMMIT statements found in {sorted(sql_sites)}; expected exactly IdlSqliteWriteTransaction::commit — a second COMMIT site makes storage durable outside the gated commit path",
              file=commit_rec["file"], line=commit_rec["line"])
    txn_api = sorted({strip_closure(r[0]) for r in F.calls(LIB)
                      if re.match(r"rusqlite::(transaction::|Connection::(transaction|savepoint|unchecked_transaction))", r[1] or r[2])})
    ctx.check(not txn_api, "K1-single-sql-commit", "-", "no-rusqlite-transaction-api",
              "rusqlite's Transaction/Savepoint API (which commits by itself) is not used",
              f"rusqlite Transaction/Savepoint API used in {txn_api}: a commit path the rule does not see")

    drop_rec = ctx.fn(LIB, SQL_DROP_FN)
    db = Body(drop_rec)
    rb = [n for n in db.calls_to("rusqlite::Connection::execute", "rusqlite::Connection::execute_batch")
          if any(re.search(r"\bROLLBACK\b", lit_text(a) or "", re.I) for x in n["args"] for a in walk(x))]
    ctx.check(bool(rb), "K1-rollback-on-drop", SQL_DROP_FN, "rollback-statement",
              "Drop for IdlSqliteWriteTransaction executes ROLLBACK",
              "Drop for IdlSqliteWriteTransaction no longer executes ROLLBACK: an abandoned write transaction would stay open on the pooled connection",
              file=drop_rec["file"], line=drop_rec["line"])
    # the connection is taken out of the transaction by commit, so Drop after a successful commit does not roll back
    takes = [n for n in walk(commit_rec["body"]) if n.get("e") == "field" and n.get("f") == "conn" and "IdlSqliteWriteTransaction" in n.get("xty", "")]
    ctx.check(bool(takes), "K1-rollback-on-drop", SQL_COMMIT_FN, "commit-takes-connection",
              "commit takes the connection out of the transaction (Drop then has nothing to roll back)",
              "commit no longer touches the transaction's `conn` field (shape not understood)", file=commit_rec["file"], line=commit_rec["line"])

    # ---- summaries -----------------------------------------------------------------
    up, down = call_graph(F, LIB)
    bodies = Bodies(F)
    sc = storage_committers(bodies, up)
    ctx.floor("K6-publish-after-storage-commit", "storage committers (consume the transaction; Ok implies SQL COMMIT)", len(sc), 5)
    for must in ("kanidmd_lib::be::idl_arc_sqlite::IdlArcSqliteWriteTransaction::<'_>::commit",
                 "kanidmd_lib::be::BackendWriteTransaction::<'a>::commit",
                 "kanidmd_lib::server::QueryServerWriteTransaction::<'a>::commit",
                 "kanidmd_lib::idm::server::IdmServerProxyWriteTransaction::<'_>::commit"):
        rec = ctx.fn(LIB, must)
        ctx.check(must in sc, "K6-publish-after-storage-commit", must, "returns-ok-only-after-storage-commit",
                  "Ok return implies the storage commit succeeded",
                  f"{nice(must)} can return Ok without a successful storage commit of the transaction it owns (its Ok result is not gated by a call, on a part of `self`, that reaches SQL COMMIT)",
                  file=rec["file"], line=rec["line"])

    def has_sc_call(fnn):
        return bool(down.get(fnn, set()) & sc)

    # publishers: functions that may publish a *shared* cell (taint upwards over the call facts, stopping at functions
    # that commit storage).  A publication on an object created in the same body (constructor-time initialisation such
    # as Schema::new) is not shared yet and does not count.
    cells = defaultdict(set)            # fn -> cell types it may publish

    def pub_sites(fnn):
        """[(node, celltypes)] publication call sites of fnn whose receiver is not a fresh local object."""
        b = bodies.get(fnn)
        out = []
        if b is None:
            return out
        for n in b.calls(skip_exp=False):      # a publication hidden in a macro expansion still counts
            if is_base_pub(n):
                ts = {cell_type(n)}
            else:
                ts = set()
                for c in callee_any(n):
                    if c != fnn and c not in sc and not has_sc_call(c):
                        ts |= cells.get(c, set())     # a callee that commits storage gates its own publications
            if ts and not b.fresh(n):
                out.append((n, ts))
        return out

    n_direct = 0
    work = []
    for name in F.fns_mentioning(LIB, "concread::", "::commit"):
        name = name.split("#")[0]
        b = bodies.get(name)
        n_direct += sum(1 for n in b.calls(skip_exp=False) if is_base_pub(n))
        work.append(name)
    ctx.floor("K6-publish-after-storage-commit", "direct concread publication calls", n_direct, 30)
    commit_fns = set()
    while work:
        f = work.pop()
        new = set()
        for _, ts in pub_sites(f):
            new |= ts
        if not new:
            continue
        grew = not new <= cells[f]
        cells[f] |= new
        if has_sc_call(f):
            commit_fns.add(f)
            continue
        if grew:
            work.extend(sorted(up.get(f, ())))
    publishers = {f for f in cells if cells[f] and f not in commit_fns}
    ctx.floor("K6-publish-after-storage-commit", "functions that commit storage and publish", len(commit_fns), 4)

    # ---- (a) ordering / gating in every commit function -----------------------------------
    txn_cells = set()
    n_pubs = 0
    for cf in sorted(commit_fns):
        rec = ctx.fn(LIB, cf)
        b = bodies.get(cf)
        sc_calls = [n for n in b.calls(skip_exp=False) if callee_any(n) & sc]
        sc_ids = {id(n) for n in sc_calls}
        pubs = [n for n, _ in pub_sites(cf)]
        if not ctx.check(bool(sc_calls) and bool(pubs), "K6-publish-after-storage-commit", cf, "shape",
                         f"{len(sc_calls)} storage commit call(s), {len(pubs)} publication call(s)",
                         "call facts say this function commits storage and publishes, but the calls were not found in its HIR body (shape not understood)",
                         file=rec["file"], line=rec["line"]):
            continue
        bad = []
        for p in pubs:
            n_pubs += 1
            what = cell_type(p) if is_base_pub(p) else nice(callee_of(p))
            if is_base_pub(p):
                txn_cells.add(cell_type(p))
            else:
                for c in callee_any(p):
                    txn_cells |= cells.get(c, set())
            g = b.gated_by(p, sc_ids)
            if g:
                ctx.ok("K6-publish-after-storage-commit", cf, "gated:" + what,
                       "runs only after " + ", ".join(sorted(nice(callee_of(b.nodes[i])) for i in g)) + " returned Ok")
                ctx.sample(f"{rec['file']}:{p.get('line')} {nice(cf)} :: {what} gated by {sorted(nice(callee_of(b.nodes[i])) for i in g)}")
            else:
                bad.append((p, what))
        if bad:
            first = bad[0][0]
            ctx.violation("K6-publish-after-storage-commit", cf, "publish-before-storage-commit",
                          f"{len(bad)} of {len(pubs)} in-memory publications in {nice(cf)} are not on the Ok continuation of the storage commit "
                          f"({', '.join(nice(callee_of(n)) for n in sc_calls)}): "
                          + "; ".join(f"{w} (line {p.get('line')})" for p, w in bad[:12])
                          + ". Expected: storage commit first, publications only after it returned Ok (`commit()?; cell.commit()` or `.map/.and_then` on its result). "
                            "If the storage commit fails, these cells have already been made visible to readers while the database rolled back.",
                          file=rec["file"], line=first.get("line"))
        # ---- (b) publications after the commit cannot fail -------------------------------
        for p in pubs:
            if not str(p.get("ty", "")).startswith("core::result::Result<"):
                continue
            for c in sorted(callee_any(p) & publishers):
                prec = F.fn(LIB, c)
                if prec is None:
                    ctx.violation("K6-publish-infallible", cf, "fallible:" + nice(c),
                                  f"{c} returns Result and its body is not available: cannot show it never fails after the storage commit", file=rec["file"], line=p.get("line"))
                    continue
                errs = constructs(prec["body"], "core::result::Result::Err")
                tries = [n for n in walk(prec["body"]) if n.get("e") == "match" and "TryDesugar" in n.get("src", "")]
                ctx.check(not errs and not tries, "K6-publish-infallible", cf, "infallible:" + nice(c),
                          f"{nice(c)} never returns Err",
                          f"{nice(c)} can return Err ({len(errs)} Err constructions, {len(tries)} `?`) but runs around the storage commit: a committed transaction could be reported as failed, or a failed one half-published",
                          file=prec["file"], line=prec["line"])
    ctx.floor("K6-publish-after-storage-commit", "publication calls inside commit functions", n_pubs, 24)

    # ---- (c) transaction cells are published nowhere else ------------------------------------
    q = {f for f in publishers if cells[f] & txn_cells}
    called_ok = set()
    for f in q:
        if up.get(f, set()) & (q | commit_fns):
            called_ok.add(f)
    for f in sorted(q):
        rec = F.fn(LIB, f)
        ctx.check(f in called_ok, "K1-publish-only-at-commit", f, "reached-only-from-commit",
                  "publisher of transaction cells, called from a commit function or another publisher",
                  f"{f} can publish {sorted(cells[f] & txn_cells)[:3]} (cells that write transactions publish at commit) but is not itself called from any commit function "
                  "or publisher: state of an uncommitted transaction would become visible without a storage commit",
                  file=rec["file"] if rec else None, line=rec["line"] if rec else None)
    for crate in OUTER:
        for (caller, callee, resolved, ln, exp, sty) in F.calls(crate):
            if callee in q or resolved in q:
                ctx.violation("K1-publish-only-at-commit", strip_closure(caller), "outside-call:" + nice(callee),
                              f"{caller} ({crate}) calls the in-memory publisher {callee} directly, outside any commit function", line=ln)
    ctx.floor("K1-publish-only-at-commit", "publisher wrappers of transaction cells", len(q), 6)
    other = sorted(f for f in publishers if not (cells[f] & txn_cells))
    ctx.notes.append("non-transactional publishers (cells no write transaction publishes; e.g. auth-session maps), not constrained: " + ", ".join(nice(x) for x in other))
    # positive control: the taint does reach the commit functions through a wrapper
    ctx.check(any((callee_any(n) & publishers) for cf in commit_fns for n in all_calls(F.fn(LIB, cf)["body"])),
              "K1-publish-only-at-commit", "-", "control:wrapper-reaches-commit",
              "at least one commit function publishes through a computed wrapper", "no wrapper publisher is called from a commit function (summary computation broken)")

    # ---- (e) Drop never publishes ---------------------------------------------------------
    drops = [it for it in F.items(LIB) if it["item"] == "impl" and it.get("trait") == "core::ops::drop::Drop"]
    ctx.floor("K1-drop-never-publishes", "Drop impls in kanidmd_lib", len(drops), 2)
    for it in drops:
        fnn = it["name"] + "::drop"
        ctx.check(fnn not in cells or not cells[fnn], "K1-drop-never-publishes", fnn, "drop-does-not-publish",
                  "Drop does not reach an in-memory publisher",
                  f"Drop for {it.get('self_ty')} reaches an in-memory publisher ({sorted(cells.get(fnn, ()))[:3]}): abandoning the transaction would publish it",
                  file=it.get("file"), line=it.get("line"))
    ctx.check(any(it.get("self_ty", "").endswith("IdlSqliteWriteTransaction") for it in drops), "K1-rollback-on-drop", SQL_DROP_FN, "drop-impl-exists",
              "IdlSqliteWriteTransaction implements Drop", "IdlSqliteWriteTransaction no longer implements Drop")
