"""C07 Change identifiers strictly increase.

Decided (DESIGN.md C07) — a complete chain of static obligations:
 (a) items:  `Cid` orders by `ts` first (derived Ord/PartialOrd with `ts` declared before `s_uuid`, or a hand-written cmp whose
             first comparison is on `ts`).
 (b) K7-lamport: `Cid::new_lamport(s_uuid, ts, max)` is extracted as  `if ts ⊳ max { A } else { B }`  and evaluated on the three
             orderings of (ts, max): the resulting timestamp is strictly greater than `max` in all three; the struct it builds
             takes that timestamp as `ts`.
 (c) K1-cid-writers: the only code that mutates the transaction's change id (DerefMut/get_mut on CowCellWriteTxn<Cid>) is
             QueryServer::write — which assigns `new_lamport(cid.s_uuid, curtime, &cid.ts)`, the max being the cell's current
             value — and reset_server_uuid, which assigns the `s_uuid` field only; the cell is written (`.write()`) only in
             QueryServer::write and created only in QueryServer::new.
 (d) K6-persist: commit persists `cid.ts` (set_db_ts_max) before, and inside, the storage commit; the cell is published only
             after set_db_ts_max returned Ok.
 (e) K6-startup-seed: QueryServer::new seeds the first change id from get_db_ts_max.
Abandoned transactions need no argument (an uncommitted CowCell write is never the base of the next new_lamport).
Not decided: behaviour of std::time::Duration arithmetic at overflow (u64 seconds), other servers' identifiers (C08-C10).
"""
import re

from .lib.hir import *
from .lib.x_order import Body, last_seg, strip_closure, erase_lifetimes
from .lib import x_txn as T

META = dict(
    technique="static chain: field order of the derived Ord (item facts), finite-domain evaluation of the extracted new_lamport template over all orderings of (ts, max), "
              "who-may-write the transaction change id (MIR call facts), order/dominance of persisting ts_max before the storage commit, startup seeding",
    level_text="Every link of the monotonicity argument is decided statically: Cid compares ts first; new_lamport's template yields a timestamp > max for ts<max, ts=max and ts>max; "
               "the only writers of a transaction's change id are QueryServer::write (max = the cell's current value) and reset_server_uuid (s_uuid only); commit persists cid.ts inside the storage "
               "transaction before publishing the cell; startup seeds from the persisted maximum. The single test checks three hand-picked timestamps on the pure constructor only.",
    level_note="Decides the five structural clauses (a)-(e); together they imply strict increase per server under the assumption that Duration addition does not overflow. "
               "Trusted: rustc derive semantics (field order), MIR call resolution, the template evaluator in rules/C07.py.",
)

LIB = T.LIB
CID = "kanidmd_lib::repl::cid::Cid"
RESET_UUID = "kanidmd_lib::server::QueryServerWriteTransaction::<'a>::reset_server_uuid"
CID_CELL_TXN = "concread::cowcell::CowCellWriteTxn<repl::cid::Cid>"


# ---- K7 template evaluation ---------------------------------------------------------------
def param_index(rec):
    m = {}
    for i, p in enumerate(rec.get("params", [])):
        for b in walk(p["pat"]):
            if b.get("p") == "bind":
                m[b["local"]] = i
    return m


def sym(e, pidx, ts_i, max_i, binds, depth=4):
    """Symbolic value of a Duration expression: ('ts',0|'+'), ('max',0|'+'|'0') ... returns (base, delta) with
    delta in {'0' (same), '+' (strictly greater), '?'}; None if not understood."""
    e = unwrap(e)
    k = e.get("e")
    if k == "path" and "local" in e.get("res", {}):
        loc = e["res"]["local"]
        if pidx.get(loc) == ts_i:
            return ("ts", "0")
        if pidx.get(loc) == max_i:
            return ("max", "0")
        if loc in binds and depth > 0:
            return sym(binds[loc], pidx, ts_i, max_i, binds, depth - 1)
        return None
    if k == "bin" and e.get("op") == "+":
        l = sym(e["l"], pidx, ts_i, max_i, binds, depth)
        d = const_sign(e["r"])
        if l is None or d is None:
            r = sym(e["r"], pidx, ts_i, max_i, binds, depth)
            d2 = const_sign(e["l"])
            if r is None or d2 is None:
                return None
            l, d = r, d2
        if l[1] == "0":
            return (l[0], d)
        if l[1] == "+":
            return (l[0], "+")
        return None
    if k == "mcall" and last_seg(callee_of(e)) in ("clone", "to_owned"):
        return sym(e["recv"], pidx, ts_i, max_i, binds, depth)
    return None


def const_sign(e):
    """'+' for a provably positive Duration constant (Duration::from_*(positive literal)), '0' for zero, None otherwise."""
    e = unwrap(e)
    if e.get("e") == "call" and re.match(r"core::time::Duration::(from_(nanos|micros|millis|secs)|new)$", callee_of(e) or ""):
        lits = [unwrap(a) for a in e["args"]]
        if all(a.get("e") == "lit" and a.get("lk") == "int" for a in lits):
            vals = [int(re.match(r"\d+", str(a["v"]).replace("_", "")).group(0)) for a in lits]
            return "+" if any(v > 0 for v in vals) else "0"
    if e.get("e") == "path" and e.get("res", {}).get("def", "").endswith("Duration::ZERO"):
        return "0"
    return None


def holds(op, ordering):
    """ts <op> max under ordering in {'lt','eq','gt'}."""
    return {">": ordering == "gt", ">=": ordering in ("gt", "eq"), "<": ordering == "lt", "<=": ordering in ("lt", "eq"),
            "==": ordering == "eq", "!=": ordering != "eq"}[op]


def exceeds_max(val, ordering):
    base, d = val
    if base == "max":
        return d == "+"
    if base == "ts":
        return ordering == "gt" or (ordering == "eq" and d == "+")
    return False


def run(ctx):
    F = ctx.facts
    ctx.exhaustive = True
    ctx.explanation = ("Strict increase of change ids per server: Cid orders by ts first (items); new_lamport's extracted template returns a ts > max on all three orderings of (ts,max) (K7); "
                       "only QueryServer::write (max = the cell's current value) and reset_server_uuid (s_uuid only) mutate the transaction's change id (K1); commit persists cid.ts inside the "
                       "storage transaction before publishing (K6); startup seeds from the persisted ts_max (K6).")

    # ---- (a) ordering of Cid ------------------------------------------------------------------
    it = F.item(LIB, "struct", CID)
    if not ctx.check(it is not None, "items-cid-order", CID, "struct-found", "struct Cid found", "struct kanidmd_lib::repl::cid::Cid not found (anchor missing)"):
        return
    fields = [f["f"] for f in it["variants"][0]["fields"]]
    impls = {i.get("trait"): i for i in F.items(LIB) if i["item"] == "impl" and i.get("self_ty") == "repl::cid::Cid"}
    for tr, method in (("core::cmp::Ord", "cmp"), ("core::cmp::PartialOrd", "partial_cmp")):
        imp = impls.get(tr)
        if not ctx.check(imp is not None, "items-cid-order", CID, f"impl:{last_seg(tr)}", f"Cid implements {last_seg(tr)}",
                         f"Cid no longer implements {tr}", file=it["file"], line=it["line"]):
            continue
        if imp.get("derived"):
            ok = "ts" in fields and "s_uuid" in fields and fields.index("ts") == 0
            ctx.check(ok, "items-cid-order", CID, f"derived-{last_seg(tr)}-compares-ts-first",
                      f"derived {last_seg(tr)}; field order {fields}",
                      f"Cid derives {last_seg(tr)} but its fields are declared in the order {fields}: the derive compares in declaration order, so change ids would be ordered by "
                      f"`{fields[0]}` before `ts` and a later transaction could compare lower", file=it["file"], line=it["line"])
        else:
            fnn = f"kanidmd_lib::<repl::cid::Cid as {tr}>::{method}"
            rec = ctx.fn(LIB, fnn)
            first = next((c for c in all_calls(rec["body"]) if last_seg(callee_of(c)) in ("cmp", "partial_cmp")), None)
            ok = first is not None and any(n.get("e") == "field" and n.get("f") == "ts" for n in walk(first.get("recv", first.get("args", [{}])[0] if first.get("args") else {})))
            ctx.check(ok, "items-cid-order", fnn, f"manual-{last_seg(tr)}-compares-ts-first", "hand-written comparison starts with `ts`",
                      "hand-written comparison of Cid does not compare `ts` first", file=rec["file"], line=rec["line"])

    # ---- (b) K7 new_lamport -------------------------------------------------------------------
    rec = ctx.fn(LIB, T.NEW_LAMPORT)
    b = Body(rec)
    pidx = param_index(rec)
    ptys = [p.get("ty", "") for p in rec.get("params", [])]
    dur = [i for i, t in enumerate(ptys) if "Duration" in t]
    ok_sig = len(ptys) == 3 and dur == [1, 2]
    ctx.check(ok_sig, "K7-lamport", T.NEW_LAMPORT, "signature", f"new_lamport(s_uuid, ts, max) : {ptys}",
              f"new_lamport's parameters are {ptys}; expected (Uuid, Duration, &Duration) (the call-site rules depend on the positions)", file=rec["file"], line=rec["line"])
    ts_i, max_i = 1, 2
    lets = b._lets()
    ctor = [n for n in walk(rec["body"]) if n.get("e") == "struct" and n["path"].get("def") == CID]
    ts_init = None
    if len(ctor) == 1:
        for f in ctor[0]["fields"]:
            if f["f"] == "ts":
                ts_init = unwrap(f["x"])
    # follow one local to its initialiser
    e = ts_init
    hops = 0
    while e is not None and e.get("e") == "path" and "local" in e.get("res", {}) and e["res"]["local"] in lets and e["res"]["local"] not in pidx and hops < 4:
        e = unwrap(lets[e["res"]["local"]])
        hops += 1
    while e is not None and e.get("e") == "blockexpr" and not e["b"]["stmts"] and "tail" in e["b"]:
        e = unwrap(e["b"]["tail"])
    tmpl_ok = False
    if e is not None and e.get("e") == "if" and "else" in e:
        c = unwrap(e["cond"])
        if c.get("e") == "bin" and c.get("op") in (">", ">=", "<", "<=", "==", "!="):
            l, r = sym(c["l"], pidx, ts_i, max_i, lets), sym(c["r"], pidx, ts_i, max_i, lets)
            op = c["op"]
            if l == ("max", "0") and r == ("ts", "0"):
                op = {">": "<", ">=": "<=", "<": ">", "<=": ">=", "==": "==", "!=": "!="}[op]
                l, r = r, l
            if l == ("ts", "0") and r == ("max", "0"):
                tv, ev = sym(e["then"], pidx, ts_i, max_i, lets), sym(e["else"], pidx, ts_i, max_i, lets)
                if tv is not None and ev is not None:
                    tmpl_ok = True
                    ctx.sample(f"new_lamport template: if ts {op} max {{ {tv} }} else {{ {ev} }}")
                    for ordering, desc in (("lt", "ts < max (clock went backwards)"), ("eq", "ts = max (clock repeated)"), ("gt", "ts > max")):
                        val = tv if holds(op, ordering) else ev
                        ctx.check(exceeds_max(val, ordering), "K7-lamport", T.NEW_LAMPORT, f"result-exceeds-max:{ordering}",
                                  f"{desc}: result {val} > max",
                                  f"{desc}: template `if ts {op} max {{{tv}}} else {{{ev}}}` yields {val}, which is NOT strictly greater than max — "
                                  "two transactions could receive equal or decreasing change ids", file=rec["file"], line=e.get("line"))
    ctx.check(tmpl_ok, "K7-lamport", T.NEW_LAMPORT, "template-extracted", "body is `Cid { ts: if ts ⊳ max {A} else {B}, s_uuid }`",
              "new_lamport's body is no longer of the form `let ts = if ts <cmp> max { .. } else { .. }; Cid { ts, s_uuid }` with branches built from ts / max / positive Duration constants "
              "(shape not understood — fail closed)", file=rec["file"], line=rec["line"])
    uu = None
    if len(ctor) == 1:
        for f in ctor[0]["fields"]:
            if f["f"] == "s_uuid":
                uu = unwrap(f["x"])
    ctx.check(uu is not None and uu.get("e") == "path" and pidx.get(uu.get("res", {}).get("local")) == 0, "K7-lamport", T.NEW_LAMPORT, "s_uuid-passed-through",
              "s_uuid of the result is the s_uuid argument", "new_lamport no longer passes its s_uuid argument through", file=rec["file"], line=rec["line"])

    # ---- (c) who writes the transaction's change id ----------------------------------------------
    allowed = {T.QS_WRITE: "stamps the new transaction: *cid = new_lamport(cid.s_uuid, curtime, &cid.ts)",
               RESET_UUID: "replaces the server uuid only"}
    writers = {}
    for (caller, callee, resolved, ln, exp, sty) in F.calls(LIB):
        if last_seg(callee) in ("deref_mut", "get_mut") and erase_lifetimes(sty) == CID_CELL_TXN:
            writers.setdefault(strip_closure(caller), ln)
    ctx.floor("K1-cid-writers", "functions mutating a CowCellWriteTxn<Cid>", len(writers), 2)
    ctx.sample("writers of the transaction change id (DerefMut on CowCellWriteTxn<Cid>): " + ", ".join(f"{T.nice(w)}@{ln}" for w, ln in sorted(writers.items())))
    ctx.sample(f"struct Cid field order {fields}; Ord/PartialOrd derived: {[bool(impls.get(t, {}).get('derived')) for t in ('core::cmp::Ord', 'core::cmp::PartialOrd')]}")
    for w, ln in sorted(writers.items()):
        ctx.check(w in allowed, "K1-cid-writers", w, "may-mutate-txn-cid", allowed.get(w, ""),
                  f"{w} mutates the transaction's change id (DerefMut on CowCellWriteTxn<Cid>, line {ln}); only QueryServer::write and reset_server_uuid may — "
                  "any other write can move the change id backwards or sideways", line=ln)
    # the cell's write handle / the cell itself
    cell_writes = sorted({strip_closure(r[0]) for r in F.calls(LIB) if re.match(r"concread::cowcell::CowCell::<T>::write$", r[1]) and "repl::cid::Cid" == r[5]})
    ctx.check(cell_writes == [T.QS_WRITE], "K1-cid-writers", T.QS_WRITE, "only-write-handle", "CowCell<Cid>::write is taken only in QueryServer::write",
              f"CowCell<Cid>::write is called from {cell_writes}; expected only QueryServer::write")
    cell_news = sorted({strip_closure(r[0]) for r in F.calls(LIB) if re.match(r"concread::cowcell::CowCell::<T>::new$", r[1]) and "repl::cid::Cid" == r[5]})
    ctx.check(cell_news == [T.QS_NEW], "K1-cid-writers", T.QS_NEW, "only-cell-constructor", "the cid cell is created only in QueryServer::new",
              f"CowCell<Cid>::new is called from {cell_news}; expected only QueryServer::new")

    # QueryServer::write: the assignment
    wrec = ctx.fn(LIB, T.QS_WRITE)
    wb = Body(wrec)
    cid_handles = [c for c in wb.calls(lambda n: re.match(r"concread::cowcell::CowCell::<T>::write$", callee_of(n) or "") is not None and "repl::cid::Cid" in (n.get("ty") or ""))]
    assigns = [n for n in walk(wrec["body"]) if n.get("e") in ("assign", "assignop") and not n.get("exp")]
    wlets = wb._lets()
    handle_locals = {loc for loc, init in wlets.items() if any(unwrap(init) is h for h in cid_handles)}

    def root_local(x):
        x = unwrap(x)
        while isinstance(x, dict) and x.get("e") == "field":
            x = unwrap(x["x"])
        if isinstance(x, dict) and x.get("e") == "path":
            return x.get("res", {}).get("local")
        return None
    cid_assigns = [a for a in assigns if root_local(a["l"]) in handle_locals]
    if ctx.check(len(cid_assigns) >= 1 and bool(cid_handles), "K1-cid-writers", T.QS_WRITE, "stamp-found",
                 f"{len(cid_assigns)} assignment(s) through the cid write handle",
                 "QueryServer::write no longer assigns the new change id through the cell's write handle (shape not understood)", file=wrec["file"], line=wrec["line"]):
        for a in cid_assigns:
            r = unwrap(a["r"])
            whole = unwrap(a["l"]).get("e") != "field"
            is_lamport = r.get("e") == "call" and callee_of(r) == T.NEW_LAMPORT and len(r.get("args", [])) == 3
            if not ctx.check(a["e"] == "assign" and whole and is_lamport, "K1-cid-writers", T.QS_WRITE, "stamp-is-new_lamport",
                             "*cid = Cid::new_lamport(..)", f"line {a.get('line')}: the transaction's change id is assigned from something other than Cid::new_lamport(..): the monotonic constructor is bypassed",
                             file=wrec["file"], line=a.get("line")):
                continue
            handle_tok = {"call:" + callee_of(h) for h in cid_handles}
            t0, t2 = wb.flow_tokens(r["args"][0]), wb.flow_tokens(r["args"][2])
            ok_max = bool(handle_tok & t2) and "field:ts" in t2 and not any(t.startswith("param:") and t != "param:0" for t in t2)
            ctx.check(ok_max, "K1-cid-writers", T.QS_WRITE, "max-is-current-cell-ts",
                      "new_lamport's max argument is the `ts` of the cell's current value",
                      f"line {a.get('line')}: new_lamport's `max` argument does not derive (only) from the cid cell's current `ts` (flows from {sorted(t for t in t2 if not t.startswith('lit:'))[:6]}): "
                      "with the wall clock as max a repeated or regressed clock yields a change id that is not above the last committed one",
                      file=wrec["file"], line=a.get("line"))
            ok_uuid = bool(handle_tok & t0) and "field:s_uuid" in t0
            ctx.check(ok_uuid, "K1-cid-writers", T.QS_WRITE, "s_uuid-is-current-cell-s_uuid", "s_uuid is carried over from the cell",
                      f"line {a.get('line')}: new_lamport's s_uuid does not come from the cell's current value", file=wrec["file"], line=a.get("line"))
    # reset_server_uuid: s_uuid only
    rrec = ctx.fn(LIB, RESET_UUID)
    rassigns = [n for n in walk(rrec["body"]) if n.get("e") in ("assign", "assignop") and not n.get("exp")]
    touching = []
    for a in rassigns:
        chain = []
        l = unwrap(a["l"])
        while isinstance(l, dict) and l.get("e") == "field":
            chain.append((l["f"], l.get("xty", "")))
            l = unwrap(l["x"])
        if any(f == "cid" and "QueryServerWriteTransaction" in xty for f, xty in chain):
            touching.append((a, chain))
    ok = bool(touching) and all(ch and ch[0][0] == "s_uuid" and "Cid" in ch[0][1] for _, ch in touching)
    ctx.check(ok, "K1-cid-writers", RESET_UUID, "writes-s_uuid-only", "assigns self.cid.s_uuid only",
              f"reset_server_uuid assigns {[('.'.join(f for f, _ in reversed(ch))) for _, ch in touching]} of the transaction's change id; only `cid.s_uuid` may change there (the timestamp must keep the value new_lamport gave it)",
              file=rrec["file"], line=rrec["line"])

    # ---- (d) persist before the storage commit, publish after persisting ----------------------------
    def ts_arg(b, call):
        toks = b.flow_tokens(call["args"][0]) if call.get("args") else set()
        ctx.check("field:ts" in toks and "param:0" in toks, "K6-persist", T.QS_COMMIT, "ts_max-argument-is-txn-cid-ts",
                  "set_db_ts_max receives the `ts` of the transaction's own change id",
                  f"set_db_ts_max's argument is not the transaction's cid.ts (flows from {sorted(t for t in toks if not t.startswith('lit:'))[:6]}): the persisted maximum could lag the issued change ids",
                  file=b.rec["file"], line=call.get("line"))
    cb, persists = T.persisted_before_commit(ctx, "K6-persist", T.QS_COMMIT, T.BE_SET_TS, T.BE_COMMIT, "ts_max", ts_arg)
    pubs = [c for c in cb.calls(lambda n: n.get("e") == "mcall" and re.match(r"concread::cowcell::CowCellWriteTxn::<.*>::commit$", callee_of(n) or "") is not None
                                and erase_lifetimes(n.get("recv_ty") or "") == CID_CELL_TXN)]
    if ctx.check(len(pubs) >= 1, "K6-persist", T.QS_COMMIT, "cid-publication-found", f"{len(pubs)} publication(s) of the cid cell",
                 "QueryServerWriteTransaction::commit no longer publishes the cid cell (CowCellWriteTxn<Cid>::commit): the next transaction would be based on a stale maximum",
                 file=cb.rec["file"], line=cb.rec["line"]):
        for p in pubs:
            g = cb.site_gates(p)
            ctx.check(any(id(x) in g for x in persists), "K6-persist", T.QS_COMMIT, "cid-published-only-after-ts_max-persisted",
                      "cid.commit() runs only after set_db_ts_max returned Ok",
                      f"line {p.get('line')}: the cid cell is published on a path where set_db_ts_max has not returned Ok", file=cb.rec["file"], line=p.get("line"))

    # ---- (e) startup -------------------------------------------------------------------------------
    T.startup_seed(ctx, "K6-startup-seed")
