"""C13 Backup then restore reproduces the database — clause (K5 + K3 + K6).

Decided:
 (a) K5 field agreement: the DbBackup variant that BackendTransaction::backup constructs (today V5) has an arm in
     BackendWriteTransaction::restore that binds *every* field of that variant (item facts; none matched with `_` or `..`)
     and every bound field is consumed: it reaches (through locals, tuples and closures) an argument of a kanidmd_lib
     writer call (write_db_s_uuid, set_key_handles, RUV restore, write_identries_raw, ..) or the version comparison —
     a field that is only logged or dropped does not count;
 (b) K3 version gate: every value-returning `Ok(..)` site of restore is reachable only if the backup's version field was
     present (`Some`) and the test `version != <the constant backup writes>` was false; the failing paths diverge (Err);
     the constant compared is the one written by backup;
 (c) K6 caller: every caller of restore commits only behind restore's Ok result (`.and_then(|_| commit())` or `?`);
 (d) both BackupCompression variants decode through the same serde_json reader function in restore, and both arms of
     backup write the same serialised string.
Not decided: equality of entries / search answers after restore, serde behaviour, RUV rebuild semantics.
"""
from .lib.hir import *
from .lib import pathcond as pc
from .lib.x_prov import Prov, tails, pat_binds

META = dict(
    technique="writer/reader field agreement on the backup variant (K5), path condition of restore's success returns (K3), commit-behind-result at the callers (K6)",
    level_text="Exhaustive structural check over every field of the backup variant written today and every success return of restore: each field is bound and consumed by a writer, "
               "success is unreachable unless the version is present and equal, the only caller commits behind the Ok result, both compressions share one deserialiser. "
               "A necessary clause of backup/restore fidelity; the single round-trip test uses one small backend and never a foreign version.",
    level_note="Decides the named clauses; equality of the restored content and of search answers is NOT decided. Trusted: rustc's HIR/types/item facts, the provenance tracer, the K3 engine.",
)
LIB = "kanidmd_lib"
CORE = "kanidmd_core"
ENUM = "kanidmd_lib::be::dbentry::DbBackup"
BACKUP = "kanidmd_lib::be::BackendTransaction::backup"
RESTORE = "kanidmd_lib::be::BackendWriteTransaction::<'a>::restore"
COMPRESSION = "kanidm_proto::backup::BackupCompression"


def match_on(body, ty_suffix):
    return [n for n in walk(body) if n.get("e") == "match" and n.get("src") == "Normal" and not n.get("exp")
            and n.get("scrut_ty", "").replace("&", "").strip().endswith(ty_suffix)]


def run(ctx):
    _run_main(ctx)
    ruv_delta_after_clear(ctx)


def _run_main(ctx):
    F = ctx.facts
    ctx.explanation = ("Every field of the DbBackup variant written by backup is bound and consumed in restore's matching arm; restore's success returns are reachable only with a present, "
                       "equal version; callers commit behind the Ok result; both compressions share the deserialiser. Structural clauses, not content equality.")
    bk = ctx.fn(LIB, BACKUP)
    rs = ctx.fn(LIB, RESTORE)
    P = Prov(rs)
    Pb = Prov(bk)
    enum = F.item(LIB, "enum", ENUM)
    if not ctx.check(enum is not None, "K5-fields", ENUM, "enum-found", "DbBackup item facts", "enum be::dbentry::DbBackup not found (anchor missing)"):
        return
    fields_of = {v["v"]: [f["f"] for f in v.get("fields", [])] for v in enum["variants"]}
    # ---- (a) -----------------------------------------------------------------
    R = "K5-fields"
    ws = [n for n in walk(bk["body"]) if n.get("e") in ("struct", "call") and def_of(n).startswith(ENUM + "::")]
    wv = sorted({def_of(n).split("::")[-1] for n in ws})
    if not ctx.check(len(wv) == 1 and len(ws) == 1 and ws[0].get("e") == "struct" and "base" not in ws[0], R, bk["fn"], "written-variant",
                     f"backup constructs DbBackup::{wv and wv[0]}", f"backup constructs {wv} ({len(ws)} sites): expected one struct-literal variant (shape not understood)",
                     file=bk["file"], line=bk["line"]):
        return
    W = wv[0]
    wnode = ws[0]
    ms = match_on(rs["body"], "be::dbentry::DbBackup")
    if not ctx.check(len(ms) == 1, R, rs["fn"], "reader-table", "restore matches on DbBackup", f"expected one match over DbBackup in restore, found {len(ms)} (shape not understood)",
                     file=rs["file"], line=rs["line"]):
        return
    m = ms[0]
    arms = [a for a in m["arms"] if a["pat"].get("p") in ("struct", "tstruct") and a["pat"]["path"].get("def") == ENUM + "::" + W and "guard" not in a]
    if not ctx.check(len(arms) == 1, R, rs["fn"], f"arm:{W}", f"restore has an arm for DbBackup::{W}",
                     f"restore has {len(arms)} plain arms for DbBackup::{W}, the variant backup writes: a fresh backup cannot be restored (or the shape is not understood)",
                     file=rs["file"], line=m.get("line")):
        return
    arm = arms[0]
    # consumption: locals reaching an argument / receiver of a non-macro kanidmd_lib call, or a non-macro ==/!= comparison
    consumed = set()
    for n in walk(rs["body"]):
        if n.get("exp"):
            continue
        if n.get("e") in ("call", "mcall") and (callee_of(n).startswith("kanidmd_lib::") or callee_of(n).startswith("<kanidmd_lib::")) and not n.get("ctor"):
            for a in n["args"]:
                consumed |= P.local_roots(a)
        if n.get("e") == "bin" and n["op"] in ("==", "!="):
            consumed |= P.local_roots(n["l"]) | P.local_roots(n["r"])
    pf = {f["f"]: f["pat"] for f in arm["pat"].get("fields", [])}
    ctx.floor(R, f"fields of DbBackup::{W}", len(fields_of.get(W, [])), 7)
    field_local = {}
    for f in fields_of.get(W, []):
        p = pf.get(f)
        bound = p is not None and bool(pat_binds(p))
        ctx.check(bound, R, rs["fn"], f"bound:{W}.{f}", f"{f} bound",
                  f"restore's DbBackup::{W} arm does not bind field `{f}` ({'matched with `_`' if p is not None else 'omitted with `..`'}): the backed-up {f} is silently dropped on restore",
                  file=rs["file"], line=arm["body"].get("line"))
        if not bound:
            continue
        lids = [l for l, _ in pat_binds(p)]
        field_local[f] = lids
        ok = any(l in consumed for l in lids)
        ctx.check(ok, R, rs["fn"], f"consumed:{W}.{f}", f"{f} reaches a writer call / the version test",
                  f"restore binds DbBackup::{W}.{f} but the value never reaches a kanidmd_lib writer call or a comparison (it is dropped or only logged): the restored database lacks the backed-up {f}",
                  file=rs["file"], line=arm["body"].get("line"))
        ctx.sample(f"DbBackup::{W}.{f}: written by backup, bound and consumed by restore")
    # written fields are all initialised from backend state (not constants), except the version
    for f in wnode["fields"]:
        if f["f"] == "version":
            continue
        labs = Pb.labels(f["x"])
        ctx.check("p0" in labs, R, bk["fn"], f"written-from-backend:{W}.{f['f']}", f"{f['f']} read from the backend (self)",
                  f"backup initialises DbBackup::{W}.{f['f']} from {sorted(labs) or 'a constant'}, not from the backend being backed up", file=bk["file"], line=f["x"].get("line"))

    # ---- (b) version gate -------------------------------------------------------
    R = "K3-version-gate"
    wver = [f["x"] for f in wnode["fields"] if f["f"] == "version"]
    wlit = sorted({n["v"] for x in wver for n in walk(x) if n.get("e") == "lit" and n.get("lk") == "str"})
    ctx.check(len(wlit) == 1, R, bk["fn"], "version-written", f"backup writes version {wlit}", f"backup does not write a single compile-time version string into DbBackup::{W}.version: {wlit}",
              file=bk["file"], line=bk["line"])
    vlocals = set(field_local.get("version", []))

    def is_ok_return(n):
        # value-returning Ok(..) of restore itself (not inside closures handled by pathcond's walk: closures are entered, so filter by type)
        return n.get("e") == "call" and not n.get("exp") and ends(n.get("ctor", ""), "core::result::Result::Ok") and n.get("ty", "").startswith("core::result::Result<(), ")
    sites = pc.site_conditions(rs["body"], is_ok_return)
    ctx.floor(R, "Ok(()) return sites in restore", len(sites), 1)
    binds = pc.collect_binds(rs["body"])

    def is_version_ne(pol, leaf):
        """literal meaning `version != CONST` (pol True with !=, or pol False with ==) over a value derived from the bound version field"""
        if leaf[1] != "expr":
            return None
        e = unwrap(leaf[2])
        if e.get("e") != "bin" or e["op"] not in ("==", "!="):
            return None
        roots = P.local_roots(e["l"]) | P.local_roots(e["r"])
        if not (roots & vlocals):
            return None
        lits = sorted({n["v"] for n in walk(e) if n.get("e") == "lit" and n.get("lk") == "str"})
        ne = (e["op"] == "!=") == pol
        return ("ne" if ne else "eq", lits)
    for i, (site, conds) in enumerate(sites):
        sfx = f"#{i}" if len(sites) > 1 else ""
        lits = pc.implied(conds, binds)
        present = False
        for (pol, leaf) in lits.values():
            if pol and leaf[1] in ("let", "arm"):
                pat = leaf[2][0] if leaf[1] == "let" else leaf[2][1]
                src = leaf[2][1] if leaf[1] == "let" else leaf[2][0]
                if has_token(tokens(pat), "def", "core::option::Option::Some") and (P.local_roots(src) & vlocals):
                    present = True
        equal = None
        # either an implied literal "version == CONST", or a blocked conjunction {present.., version != CONST} whose other members are implied
        for (pol, leaf) in lits.values():
            r = is_version_ne(pol, leaf)
            if r and r[0] == "eq":
                equal = r[1]
        keys = set(lits.keys())
        for conj in pc.blocked(conds):
            hit = [is_version_ne(p, l) for (p, l) in conj]
            idx = [k for k, r in enumerate(hit) if r and r[0] == "ne"]
            if len(idx) == 1 and all((p, pc.leaf_key(l)) in keys for k, (p, l) in enumerate(conj) if k != idx[0]):
                equal = hit[idx[0]][1]
        ctx.check(present, R, rs["fn"], f"success-needs-version-present{sfx}", "Ok(()) only if the backup carried a version",
                  "restore can return Ok(()) for a backup without a version field (older format): it must fail before the caller commits; "
                  f"conditions found: {[x for x in pc.render(lits) if 'tracing' not in x and 'log' not in x][:6]}", file=rs["file"], line=site.get("line"))
        ctx.check(equal is not None and equal == wlit, R, rs["fn"], f"success-needs-version-equal{sfx}", f"Ok(()) only if version == {wlit}",
                  f"restore can return Ok(()) although the backup's version differs from this server's ({wlit}): no guard `version != {wlit} ⇒ return Err` dominates the success return "
                  f"(found comparison constant: {equal}); blocked: {[x for x in pc.render_blocked(pc.blocked(conds)) if 'tracing' not in x and 'log' not in x][:4]}",
                  file=rs["file"], line=site.get("line"))
    # ---- (c) callers ---------------------------------------------------------------
    R = "K6-commit-behind-restore"
    callers = set()
    crates = F.crates() if ctx.tier == "thorough" else [LIB, CORE, "kanidmd.bin"]
    for cr in crates:
        for name in F.fns_mentioning(cr, "BackendWriteTransaction::<'a>::restore"):
            cf = F.fn(cr, name)
            if cf and cf.get("body") and any(n.get("e") in ("mcall", "call") and callee_of(n) == RESTORE for n in walk(cf["body"])):
                callers.add((cr, name))
    ctx.floor(R, "callers of BackendWriteTransaction::restore", len(callers), 1)
    for (cr, cname) in sorted(callers):
        cf = ctx.fn_opt(cr, cname)
        if not ctx.check(cf is not None, R, cname, "caller-body", "caller body found", f"caller {cname} of restore has no HIR body (shape not understood)"):
            continue
        rcalls = [n for n in walk(cf["body"]) if n.get("e") == "mcall" and ends(callee_of(n), "BackendWriteTransaction::<'a>::restore")]
        commits = [n for n in walk(cf["body"]) if n.get("e") == "mcall" and ends(callee_of(n), "BackendWriteTransaction::<'a>::commit") and not n.get("exp")]
        for rc in rcalls:
            guarded = set()
            # restore(..).and_then(|_| .. commit ..)
            for n in walk(cf["body"]):
                if n.get("e") == "mcall" and n.get("name") in ("and_then", "map") and any(x is rc for x in walk(n["recv"])):
                    for a in n["args"]:
                        for x in walk(a):
                            guarded.add(id(x))
            # restore(..)? ; commit
            sc = pc.site_conditions(cf["body"], lambda x: any(x is c for c in commits))
            for (c, conds) in sc:
                for (pol, leaf) in pc.implied(conds).values():
                    if pol and leaf[1] == "ok" and any(x is rc for x in walk(leaf[2])):
                        guarded.add(id(c))
            bad = [c for c in commits if id(c) not in guarded]
            ctx.check(not bad, R, cname, "commit-only-after-ok", f"{len(commits)} commit site(s) behind restore's Ok",
                      f"{cname} can call BackendWriteTransaction::commit without restore having returned Ok (line {[c.get('line') for c in bad]}): a refused (wrong-version) or failed restore "
                      "would still replace the database", file=cf["file"], line=rc.get("line"))
    # ---- (d) compressions --------------------------------------------------------------
    R = "K5-compression"
    variants = None
    for cr in F.crates():
        it = F.item(cr, "enum", COMPRESSION)
        if it:
            variants = [v["v"] for v in it["variants"]]
    if not ctx.check(bool(variants), R, COMPRESSION, "enum-found", "BackupCompression item facts", "enum kanidm_proto::backup::BackupCompression not found (anchor missing)"):
        return
    ctx.floor(R, "BackupCompression variants", len(variants), 2)
    rm = match_on(rs["body"], "backup::BackupCompression")
    if ctx.check(len(rm) == 1, R, rs["fn"], "reader-table", "restore matches on the compression", f"expected one match over BackupCompression in restore, found {len(rm)} (shape not understood)",
                 file=rs["file"], line=rs["line"]):
        des = {}
        for v in variants:
            arm = next((a for a in rm[0]["arms"] if COMPRESSION + "::" + v in {t[4:] for t in tokens(a["pat"]) if t.startswith("def:")} or pc.is_catch_all(a["pat"])), None)
            cs = sorted({callee_of(c) for c in all_calls(arm["body"]) if callee_of(c).startswith("serde_json::")}) if arm else []
            des[v] = cs
            ctx.check(len(cs) == 1 and all(P.labels(t) >= {"p1"} for t in tails(arm["body"])), R, rs["fn"], f"decode:{v}", f"{v} → {cs}",
                      f"restore's {v} arm decodes with {cs or 'no serde_json reader'} (or not from the input stream)", file=rs["file"], line=(arm or {}).get("body", {}).get("line"))
        ctx.check(len({tuple(x) for x in des.values()}) == 1, R, rs["fn"], "same-deserialiser", f"all compressions decode via {next(iter(des.values()))}",
                  f"the compressions decode through different deserialisers: {des} — a compressed and an uncompressed backup of the same database restore differently",
                  file=rs["file"], line=rm[0].get("line"))
    bm = match_on(bk["body"], "backup::BackupCompression")
    if ctx.check(len(bm) == 1, R, bk["fn"], "writer-table", "backup matches on the compression", f"expected one match over BackupCompression in backup, found {len(bm)} (shape not understood)",
                 file=bk["file"], line=bk["line"]):
        ser = [n for n in walk(bk["body"]) if n.get("s") == "let" and "init" in n and any(callee_of(c).startswith("serde_json::ser::to_") for c in all_calls(n["init"]))
               and any(x is wnode or (x.get("e") == "path" and Pb.local_of(x) is not None and any(y is wnode for s in Pb.sources(Pb.local_of(x)) for y in walk(s))) for x in walk(n["init"]))]
        sl = {l for n in ser for l, _ in pat_binds(n["pat"])}
        ctx.check(len(ser) == 1, R, bk["fn"], "serialised-once", "the DbBackup value is serialised once", f"expected one serde_json serialisation of the DbBackup value, found {len(ser)} (shape not understood)",
                  file=bk["file"], line=bk["line"])
        for v in variants:
            arm = next((a for a in bm[0]["arms"] if COMPRESSION + "::" + v in {t[4:] for t in tokens(a["pat"]) if t.startswith("def:")} or pc.is_catch_all(a["pat"])), None)
            wr = [c for c in all_calls(arm["body"]) if c.get("e") == "mcall" and c.get("name") in ("write", "write_all") and not c.get("exp")] if arm else []
            ok = bool(wr) and all(Pb.local_roots(c["args"][0]) & sl for c in wr)
            ctx.check(ok, R, bk["fn"], f"encode:{v}", f"{v} writes the serialised backup", f"backup's {v} arm does not write the serialised DbBackup string", file=bk["file"], line=(arm or {}).get("body", {}).get("line"))


# ---------------------------------------------------------------------------------------------------------------------
# restore() clears the replication update vector and rebuilds it from the backup inside one transaction; commit then
# persists the RUV as a delta (added(), removed()) against what is on disk. "Cleared in this transaction" is recorded in
# a field that clear() resets; both delta functions must consult it, otherwise ids of the pre-restore database that the
# backup does not contain stay in the ruv table and come back after a restart — the restored database advertises changes the
# backup never had. (added after seeded change C13: removed() stopped looking at the cleared marker)

def ruv_delta_after_clear(ctx):
    R = "K4-ruv-delta-honours-clear"
    T = "kanidmd_lib::repl::ruv::ReplicationUpdateVectorWriteTransaction::<'_>::"
    clear = ctx.fn(LIB, T + "clear")
    selfl = clear["params"][0]["pat"].get("local") if clear["params"] else None

    def self_fields(fn, kinds):
        out = set()
        sl = fn["params"][0]["pat"].get("local") if fn["params"] else None
        for n in walk(fn["body"]):
            if "assign" in kinds and n.get("e") == "assign":
                l = unwrap(n["l"])
                if l.get("e") == "field" and unwrap(l["x"]).get("e") == "path" and unwrap(l["x"])["res"].get("local") == sl:
                    out.add(l["f"])
            if "read" in kinds and n.get("e") == "field":
                x = unwrap(n["x"])
                if x.get("e") == "path" and x["res"].get("local") == sl:
                    out.add(n["f"])
        return out

    marker = self_fields(clear, {"assign"})
    if not ctx.check(bool(marker), R, clear["fn"], "clear-marks-transaction", f"clear() resets {sorted(marker)}",
                     "clear() no longer records that the vector was cleared in this transaction (no field is reset): shape not understood",
                     file=clear["file"], line=clear["line"]):
        return
    # restore() does clear the RUV (so the marker matters for backup/restore)
    rs = ctx.fn(LIB, RESTORE)
    restore_clears = any(is_call_to(c, T + "clear", "ReplicationUpdateVectorWriteTransaction::<'_>::clear") for c in all_calls(rs["body"]))
    if not restore_clears:
        # reached through a helper: accept any call path of depth 2 in the backend
        for c in all_calls(rs["body"]):
            cal = callee_of(c)
            d = ctx.facts.fn(LIB, cal) if cal.startswith("kanidmd_lib::") else None
            if d is not None and any(is_call_to(x, "ReplicationUpdateVectorWriteTransaction::<'_>::clear") for x in all_calls(d["body"])):
                restore_clears = True
    ctx.check(restore_clears, R, rs["fn"], "restore-clears-ruv", "restore() clears the RUV before loading the backup",
              "restore() no longer clears the replication update vector before loading the backup: ids of the old database survive the restore",
              file=rs["file"], line=rs["line"])
    for fname in ("removed", "added"):
        f = ctx.fn(LIB, T + fname)
        reads = self_fields(f, {"read"})
        ctx.check(bool(marker & reads), R, f["fn"], f"{fname}-consults-cleared-marker", f"{fname}() looks at {sorted(marker & reads)}",
                  f"{fname}() does not consult {sorted(marker)}, the field clear() resets: after a restore over a database that has moved on, the persisted "
                  f"ruv delta is computed as if nothing had been cleared — stale change ids of the pre-restore database stay on disk (or backup ids are not "
                  "written) and reappear after a restart, so the restored database no longer equals the backup's replication state",
                  file=f["file"], line=f["line"])
