"""C23 Searches never disclose what the caller may not read — clause: every read path is funnelled through the
access filters, and the filters' decision tables fail closed (K1/K3/K4/K6).

Decided (DESIGN.md C23):
 (a) K6-result    QueryServerTransaction::search returns only the value of search_filter_entries applied to the raw
                  backend result; search_ext only the value of search_filter_entry_attributes applied to search();
                  exists() uses the raw BackendTransaction::exists only under `ident.is_internal()`, otherwise the
                  boolean is computed from filter_entries(raw result);
 (b) K1-raw       BackendTransaction::search / ::exists are called from search / exists only; the EntryReduced marker
                  is constructed by reduce_attributes only, and reduce_attributes keeps an attribute only under
                  `allowed_attrs.contains(k)`;
 (c) K4-reduce    in search_filter_entry_attributes the Deny and Grant arms release nothing and the Allow arm reduces
                  with (requested & allowed | allowed); filter_entries: Deny => false, Allow => requested ⊆ allowed where
                  requested is filter_orig.get_attr_set();
 (d) K4-combiner  apply_search_access: the deny flag starts false, every module's Deny sets it, nothing clears it and
                  every non-Deny result is constructed under `!denied`; the allow set starts empty;
 (e) K3-event     every non-internal constructor of SearchEvent/DeleteEvent/ModifyEvent/ReviveRecycledEvent/ExistsEvent
                  (struct literal anywhere in the workspace) sets `filter` from into_ignore_hidden() / into_recycled();
                  the internal constructors (allow-list) are not called from outside kanidmd_lib;
 (f) K1-ldap      LdapServer::do_search / do_compare reach entries only through search_ext / exists with an event whose
                  identity comes from validate_ldap_session;
 (g) K1-handlers  the request handlers of kanidmd_core (actors::v1_*) read entries only through search_ext (floor) — the image handler is allow-listed (O1).
 K5-profile-fields  AccessControlSearch.attrs / AccessControlProfile.receiver,target are parsed from their own stored attributes (lib/x_fields.py).
Not decided: that the ACP evaluation (receiver/target matching, grant arithmetic) agrees with a reference model over all
profile sets; filter resolution; LDAP attribute mapping.
"""
import re
from .lib.hir import *
from .lib.pathcond import site_conditions, implied, collect_binds, lit_has, render
from .lib.x_g5 import (crates_with, struct_needle, Flow, Binds, result_exprs, core_of, is_err_value, is_empty_collection, peel, local_id,
                       closure_free_of_outer_locals, user_nodes, module_matches, arm_variants, bool_assign,
                       pattern_locals, is_try, check_combiner)

META = dict(
    technique="static funnel / decision-table check on type-checked HIR and MIR call facts (who-may-call, result provenance, arm tables, path conditions)",
    level_text="Exhaustive structural check over every read path of the server library and every request handler: entries leave the "
               "query server only through the access filters, raw backend reads and the reduced-entry marker have a single producer, "
               "the search decision tables fail closed (Deny dominates, Grant releases nothing in the attribute reduction) and every "
               "externally fed event wraps its filter to hide recycled/tombstoned entries. A necessary clause of the disclosure property; "
               "the tests only exercise a dozen hand-built profile/entry combinations.",
    level_note="Decides the funnel/fail-closed clause only. Not decided: agreement of ACP evaluation with a reference model over all "
               "profile sets, filter resolution, LDAP attribute mapping. Observation O1: the OAuth2 image handler uses the entry-level "
               "search (allow-listed, outside the operations C23 names). Trusted: rustc name resolution/types, the rule tables.",
)

LIB = "kanidmd_lib"
CORE = "kanidmd_core"
QST = "kanidmd_lib::server::QueryServerTransaction::"
ACT = "kanidmd_lib::server::access::AccessControlsTransaction::"
BE_SEARCH = "kanidmd_lib::be::BackendTransaction::search"
BE_EXISTS = "kanidmd_lib::be::BackendTransaction::exists"
# the four filter wrappers; `filter!(..)` / `filter_rec!(..)` expand to the FilterInvalid pair. (K4-wrapper checks their bodies.)
WRAP_HIDE = ("kanidmd_lib::filter::Filter::<filter::FilterValid>::into_ignore_hidden",
             "kanidmd_lib::filter::Filter::<filter::FilterInvalid>::new_ignore_hidden")
WRAP_REC = ("kanidmd_lib::filter::Filter::<filter::FilterValid>::into_recycled",
            "kanidmd_lib::filter::Filter::<filter::FilterInvalid>::new_recycled")
WRAPPERS = WRAP_HIDE + WRAP_REC

EVENTS = ("SearchEvent", "DeleteEvent", "ModifyEvent", "ReviveRecycledEvent", "ExistsEvent")
# constructors that take already-wrapped filters from code inside kanidmd_lib (internal operations and impersonation of an
# already-built event); they must never be reachable from another crate.
INTERNAL_CTORS = {
    "kanidmd_lib::event::SearchEvent::new_internal": "internal search (system identity), filter built by server code",
    "kanidmd_lib::event::SearchEvent::new_impersonate": "re-uses filter/filter_orig of an already constructed event",
    "kanidmd_lib::event::DeleteEvent::new_internal": "internal delete",
    "kanidmd_lib::event::ModifyEvent::new_internal": "internal modify",
    "kanidmd_lib::event::ModifyEvent::new_impersonate": "re-uses filter/filter_orig of an already constructed event",
    "kanidmd_lib::event::ExistsEvent::new_internal": "internal exists",
}
# O1 (DESIGN.md C23): serves the `image` attribute of an OAuth2 client without attribute reduction; entry-level access
# control (search_filter_entries with the caller's identity and requested attr `image`) still applies. Outside the
# operations C23 names (search / exists / LDAP search / LDAP compare).
HANDLER_ALLOW = {
    "kanidmd_core::actors::v1_read::<impl actors::QueryServerReadV1>::handle_oauth2_rs_image_get_image":
        "O1: image handler returns `image` of an OAuth2 client from the entry-level search",
}


def base_fn(name):
    return name.split("::{closure")[0]


def strip_pure_map(e, binds):
    """core_of, additionally looking through `.map(|x| <expr over x only>)`."""
    for _ in range(10):
        e = core_of(e, binds)
        if e.get("e") == "mcall" and callee_of(e) == "core::result::Result::<T, E>::map" and e["args"]:
            cl = unwrap(e["args"][0])
            if cl.get("e") == "closure" and closure_free_of_outer_locals(cl):
                e = e["recv"]
                continue
        return e
    return e


def funnel(ctx, fn, filter_name, raw_sources, raw_arg_index, rule="K6-result"):
    """Every result of `fn` is Err(..), an empty collection, or <filter_name>(.., raw) with raw derived from raw_sources.
    Returns the filter call nodes."""
    body = fn["body"]
    binds = Binds(body)
    flt = ACT + filter_name
    res = result_exprs(body)
    ctx.check(len(res) >= 1, rule, fn["fn"], "has-result", "result expressions found", "no result expression found (shape not understood)",
              file=fn["file"], line=fn["line"])
    calls = []
    n = 0
    for (x, kind) in res:
        if is_err_value(x):
            continue
        c = strip_pure_map(x, binds)
        if is_empty_collection(c):
            continue
        cal = callee_of(c) if c.get("e") in ("call", "mcall") else ""
        if cal == BE_EXISTS:
            continue        # decided by K3-exists-fastpath
        ok = c.get("e") == "mcall" and cal == flt
        ctx.check(ok, rule, fn["fn"], f"result:{short(cal, 1) or c.get('e')}",
                  f"result is {filter_name}(..)",
                  f"a result of {short(fn['fn'], 1)} is `{ex_s(c)[:120]}`, not the value of {filter_name}(..): entries would leave the query server without passing the access filter",
                  file=fn["file"], line=c.get("line"))
        if not ok:
            continue
        n += 1
        calls.append(c)
        raw = c["args"][raw_arg_index] if len(c["args"]) > raw_arg_index else None
        fl = Flow(body, raw_sources)
        ctx.check(raw is not None and fl.derived(raw), rule, fn["fn"], f"filters-raw:{filter_name}",
                  f"{filter_name} is applied to the result of {[short(s, 1) for s in raw_sources]}",
                  f"the entries handed to {filter_name} are `{ex_s(raw)[:100]}`, not the result of {[short(s) for s in raw_sources]} obtained in this function",
                  file=fn["file"], line=c.get("line"))
    ctx.check(n >= 1, rule, fn["fn"], f"returns:{filter_name}", f"{n} result(s) are {filter_name}(..)",
              f"{short(fn['fn'], 1)} has no result that is the value of {filter_name}(..)", file=fn["file"], line=fn["line"])
    # the raw result is used for nothing else
    allowed_ids = set()
    for c in calls:
        for a in c["args"]:
            for p in walk(a):
                allowed_ids.add(id(p))
    for st in walk(body):
        if st.get("s") == "let" and "init" in st and st["pat"].get("p") == "bind":
            core = core_of(st["init"], binds)
            if core.get("e") in ("call", "mcall") and is_call_to(core, *raw_sources):
                loc = st["pat"]["local"]
                uses = [p for p in walk(body) if p.get("e") == "path" and p["res"].get("local") == loc]
                bad = [p for p in uses if id(p) not in allowed_ids]
                ctx.check(not bad, rule, fn["fn"], f"raw-only-filtered:{filter_name}",
                          f"raw result used only as the argument of {filter_name} ({len(uses)} use)",
                          f"the unfiltered result of {short(callee_of(core))} is also used outside {filter_name}(..) (line {bad[0].get('line') if bad else '?'})",
                          file=fn["file"], line=bad[0].get("line") if bad else None)
    return calls


def run(ctx):
    _run_main(ctx)
    search_profile_fields(ctx)


def _run_main(ctx):
    F = ctx.facts
    ctx.explanation = ("Read-path funnel: search/search_ext/exists return only access-filtered data, raw backend reads and the reduced-entry "
                       "marker have one producer each, the search decision tables fail closed, every externally fed event hides "
                       "recycled/tombstoned entries, LDAP and the request handlers use search_ext/exists only.")

    # ---- (a) results of search / search_ext / exists -------------------------------------------
    f_search = ctx.fn(LIB, QST + "search")
    f_ext = ctx.fn(LIB, QST + "search_ext")
    f_exists = ctx.fn(LIB, QST + "exists")
    funnel(ctx, f_search, "search_filter_entries", (BE_SEARCH,), 1)
    funnel(ctx, f_ext, "search_filter_entry_attributes", (QST + "search",), 1)
    funnel(ctx, f_exists, "filter_entries", (BE_SEARCH,), 2)
    sfe = ctx.fn(LIB, ACT + "search_filter_entries")
    r = [core_of(x, Binds(sfe["body"])) for (x, _) in result_exprs(sfe["body"])]
    ctx.check(len(r) == 1 and callee_of(r[0]) == ACT + "filter_entries", "K6-result", sfe["fn"], "delegates:filter_entries",
              "search_filter_entries = filter_entries(ident, filter_orig, entries)",
              "search_filter_entries no longer returns filter_entries(..)", file=sfe["file"], line=sfe["line"])
    # exists: raw exists only for internal identities
    pb = collect_binds(f_exists["body"])
    sites = site_conditions(f_exists["body"], lambda x: x.get("e") == "mcall" and callee_of(x) == BE_EXISTS)
    for (s, conds) in sites:
        lits = implied(conds, pb)
        ctx.check(lit_has(lits, True, "call", "server::identity::Identity::is_internal"), "K3-exists-fastpath", f_exists["fn"],
                  "raw-exists-under:is_internal", "BackendTransaction::exists only under ident.is_internal()",
                  f"the unfiltered BackendTransaction::exists is reachable for external identities (path condition {render(lits)[:5]}): existence of unreadable entries leaks",
                  file=f_exists["file"], line=s.get("line"))
    # and the filtered branch is the one taken for non-internal identities
    sites = site_conditions(f_exists["body"], lambda x: x.get("e") == "mcall" and callee_of(x) == ACT + "filter_entries")
    ctx.check(len(sites) >= 1, "K3-exists-fastpath", f_exists["fn"], "has-filtered-branch", "filter_entries branch present",
              "exists() no longer calls filter_entries", file=f_exists["file"], line=f_exists["line"])
    for (s, conds) in sites:
        lits = implied(conds, pb)
        unconditional = not lit_has(lits, True, "call", "server::identity::Identity::is_internal")
        ctx.check(unconditional, "K3-exists-fastpath", f_exists["fn"], "filtered-branch-for-external",
                  "filter_entries is on the path of non-internal identities",
                  "filter_entries is only evaluated for internal identities", file=f_exists["file"], line=s.get("line"))

    # ---- (b) single producers --------------------------------------------------------------------
    raw_callers = []
    for crate in crates_with(F, "kanidmd_lib::be::BackendTransaction::", also=("kanidmd_lib::event::",)):
        for (caller, callee, resolved, ln, exp, sty) in F.calls(crate):
            if callee in (BE_SEARCH, BE_EXISTS) or resolved in (BE_SEARCH, BE_EXISTS):
                raw_callers.append((crate, base_fn(caller), callee, ln))
    ctx.floor("K1-raw", "call sites of BackendTransaction::search/exists", len(raw_callers), 3)
    for (crate, caller, callee, ln) in raw_callers:
        ok = caller in (QST + "search", QST + "exists")
        ctx.check(ok, "K1-raw", caller, f"calls:{short(callee, 2)}", f"{short(caller, 1)} -> {short(callee, 2)}",
                  f"{caller} calls the raw {short(callee, 2)}: entries are read without search_filter_entries / filter_entries",
                  line=ln)
    RED = "kanidmd_lib::entry::EntryReduced"
    REDUCE = "kanidmd_lib::entry::Entry::<entry::EntrySealed, entry::EntryCommitted>::reduce_attributes"
    makers = []
    for crate in crates_with(F, struct_needle(RED), "hir", also=tuple(struct_needle("kanidmd_lib::event::" + ev) for ev in EVENTS)):
        for n in F.fns_mentioning(crate, struct_needle(RED)):
            d = F.fn(crate, n)
            if d.get("kind") not in ("fn", "assocfn", "closure"):
                continue
            if any(x.get("e") == "struct" and x["path"].get("def") == RED for x in walk(d["body"])):
                makers.append(d)
    ctx.floor("K1-reduced", "constructors of the EntryReduced marker", len(makers), 1)
    derived_clone = F.item(LIB, "impl", "kanidmd_lib::<entry::EntryReduced as core::clone::Clone>")
    for d in makers:
        if d["fn"] == "kanidmd_lib::<entry::EntryReduced as core::clone::Clone>::clone" and derived_clone and derived_clone.get("derived"):
            ctx.ok("K1-reduced", d["fn"], "derived-clone", "#[derive(Clone)] copies an existing marker")
            continue
        ctx.check(d["fn"] == REDUCE, "K1-reduced", d["fn"], "constructs:EntryReduced", "reduce_attributes builds EntryReduced",
                  f"{d['fn']} constructs an EntryReduced marker: a reduced entry can be produced without attribute reduction",
                  file=d["file"], line=d["line"])
    red = ctx.fn(LIB, REDUCE)
    allowed_param = None
    for p in red["params"]:
        if "BTreeSet<kanidm_proto::attribute::Attribute>" in p["ty"] and p["pat"].get("p") == "bind":
            allowed_param = p["pat"]["local"]
    keep_sites = []
    for cl in walk(red["body"]):
        if cl.get("e") == "mcall" and is_call_to(cl, "Iterator::filter_map"):
            for (s, conds) in site_conditions(cl, lambda x: x.get("e") == "call" and x.get("ctor") == "core::option::Option::Some"):
                keep_sites.append((cl, s, conds))
    ctx.check(allowed_param is not None and len(keep_sites) >= 1, "K4-reduce-inner", red["fn"], "shape",
              "allowed set parameter and attribute filter found", "reduce_attributes: allowed-set parameter or attribute filter_map not found",
              file=red["file"], line=red["line"])
    for (cl, s, conds) in keep_sites:
        lits = implied(conds, {})
        ok = False
        for (pol, leaf) in lits.values():
            if pol and leaf[1] == "expr":
                e = unwrap(leaf[2])
                if e.get("e") == "mcall" and e["name"] == "contains" and local_id(e["recv"]) == allowed_param:
                    ok = True
        ctx.check(ok, "K4-reduce-inner", red["fn"], "keeps-only:allowed.contains", "attribute kept only if allowed_attrs.contains(k)",
                  f"reduce_attributes keeps an attribute without testing allowed_attrs.contains (path condition {render(lits)[:4]})",
                  file=red["file"], line=s.get("line"))
    for st in walk(red["body"]):
        if st.get("e") == "struct" and st["path"].get("def") == "kanidmd_lib::entry::Entry":
            av = [f["x"] for f in st["fields"] if f["f"] == "attrs"]
            fl = Flow(red["body"], (), extra_ok=lambda e: any(e is k[0] for k in keep_sites))
            ctx.check(bool(av) and fl.derived(av[0]), "K4-reduce-inner", red["fn"], "attrs-from-filter",
                      "reduced entry's attrs are the filtered map", "the reduced entry's `attrs` is not the filtered attribute map",
                      file=red["file"], line=st.get("line"))

    # ---- (c) arm tables of the two filters ----------------------------------------------------------
    SR = "kanidmd_lib::server::access::search::SearchResult"
    APPLY = "kanidmd_lib::server::access::search::apply_search_access"
    sfea = ctx.fn(LIB, ACT + "search_filter_entry_attributes")
    fe = ctx.fn(LIB, ACT + "filter_entries")

    def decision_match(fn):
        ms = [n for n in user_nodes(fn["body"]) if n.get("e") == "match" and n.get("src") == "Normal"
              and callee_of(unwrap(n["scrut"])) == APPLY]
        ctx.check(len(ms) == 1, "K4-reduce", fn["fn"], "decision-match", "one match over apply_search_access(..)",
                  f"expected one `match apply_search_access(..)`, found {len(ms)}", file=fn["file"], line=fn["line"])
        return ms[0] if len(ms) == 1 else None

    def enclosing_adaptor(fn, m, name):
        for n in walk(fn["body"]):
            if n.get("e") == "mcall" and is_call_to(n, name):
                if any(x is m for a in n["args"] for x in walk(a)):
                    return n
        return None

    m = decision_match(sfea)
    if m is not None:
        reduce_calls = [n for n in walk(sfea["body"]) if n.get("e") == "mcall" and callee_of(n) == REDUCE]
        ctx.floor("K4-reduce", "reduce_attributes calls in search_filter_entry_attributes", len(reduce_calls), 1)
        in_allow = set()
        seen = set()
        for a in m["arms"]:
            vs = arm_variants(a)
            if any(v == SR + "::Allow" for v in vs) and len(vs) == 1:
                seen.add("Allow")
                bound = set(pattern_locals(a["pat"]).keys())
                b = Binds(sfea["body"])

                def bounded(e, depth=0):
                    e = peel(e)
                    if depth > 10 or not isinstance(e, dict):
                        return False
                    if local_id(e) is not None:
                        if local_id(e) in bound:
                            return True
                        got = b.lookup(local_id(e))
                        return got is not None and not got[1] and bounded(got[0], depth + 1)
                    if e.get("e") == "bin" and e["op"] == "&":
                        return bounded(e["l"], depth + 1) or bounded(e["r"], depth + 1)
                    if e.get("e") == "if" and "else" in e:
                        return bounded(e["then"], depth + 1) and bounded(e["else"], depth + 1)
                    if e.get("e") == "blockexpr" and "tail" in e["b"]:
                        return bounded(e["b"]["tail"], depth + 1)
                    return False
                for rc in [n for n in walk(a["body"]) if n.get("e") == "mcall" and callee_of(n) == REDUCE]:
                    in_allow.add(id(rc))
                    ctx.check(bounded(rc["args"][0]), "K4-reduce", sfea["fn"], "Allow:reduced-by-allowed",
                              "Allow(allowed) => reduce_attributes(requested & allowed | allowed)",
                              f"the Allow arm reduces with `{ex_s(rc['args'][0])[:80]}`, which is not bounded by the allowed set of apply_search_access",
                              file=sfea["file"], line=rc.get("line"))
                for so in [n for n in user_nodes(a["body"]) if n.get("e") == "call" and n.get("ctor") == "core::option::Option::Some"]:
                    arg = peel(so["args"][0])
                    ctx.check(arg.get("e") == "mcall" and callee_of(arg) == REDUCE, "K4-reduce", sfea["fn"], "Allow:releases-reduced-only",
                              "Allow arm releases reduce_attributes(..) only",
                              f"the Allow arm releases `{ex_s(arg)[:80]}` instead of the reduced entry", file=sfea["file"], line=so.get("line"))
            else:
                for v in vs:
                    nm = short(v, 1)
                    seen.add(nm)
                    leaks = [n for n in user_nodes(a["body"]) if (n.get("e") == "call" and n.get("ctor") == "core::option::Option::Some")
                             or (n.get("e") == "mcall" and callee_of(n) == REDUCE)]
                    ctx.check(not leaks, "K4-reduce", sfea["fn"], f"{nm}:releases-nothing", f"{nm} => None",
                              f"the {nm} arm of the attribute reduction releases `{ex_s(leaks[0])[:80] if leaks else ''}`: "
                              f"an unbounded grant must not return entries (no attribute set bounds it)",
                              file=sfea["file"], line=a["body"].get("line"))
        ctx.check({"Deny", "Grant", "Allow"} <= seen or any(a["pat"].get("p") == "wild" for a in m["arms"]), "K4-reduce", sfea["fn"], "arms-complete",
                  f"arms {sorted(seen)}", f"decision arms {sorted(seen)} do not cover Deny/Grant/Allow", file=sfea["file"], line=m.get("line"))
        stray = [rc for rc in reduce_calls if id(rc) not in in_allow]
        ctx.check(not stray, "K4-reduce", sfea["fn"], "reduce-only-in-Allow", "reduce_attributes only in the Allow arm",
                  "reduce_attributes is called outside the Allow arm", file=sfea["file"], line=stray[0].get("line") if stray else None)
        fm = enclosing_adaptor(sfea, m, "Iterator::filter_map")
        fl = Flow(sfea["body"], (), extra_ok=lambda e: e is fm)
        for (x, kind) in result_exprs(sfea["body"]):
            if is_err_value(x):
                continue
            c = core_of(x, Binds(sfea["body"]))
            ctx.check(fm is not None and fl.derived(c), "K4-reduce", sfea["fn"], "result-is-filtered-set",
                      "Ok(<entries that passed the decision match>)",
                      f"search_filter_entry_attributes returns `{ex_s(c)[:80]}`, not the collection produced by the decision match",
                      file=sfea["file"], line=x.get("line"))

    m = decision_match(fe)
    if m is not None:
        orig_param = None
        for p in fe["params"]:
            if "filter::Filter<filter::FilterValid>" in p["ty"] and p["pat"].get("p") == "bind":
                orig_param = p["pat"]["local"]
        b = Binds(fe["body"])
        seen = set()
        for a in m["arms"]:
            vs = arm_variants(a)
            if vs == [SR + "::Allow"]:
                seen.add("Allow")
                bound = set(pattern_locals(a["pat"]).keys())
                val = a["body"]
                t = peel(val)
                if t.get("e") == "blockexpr" and "tail" in t["b"]:
                    t = t["b"]["tail"]
                c = core_of(t, b)
                ok = c.get("e") == "mcall" and c["name"] == "is_subset" and local_id(c["args"][0]) in bound
                req_ok = False
                if ok:
                    rl = local_id(c["recv"])
                    got = b.lookup(rl) if rl is not None else None
                    if got is not None:
                        ic = peel(got[0])
                        req_ok = ic.get("e") == "mcall" and ic["name"] == "get_attr_set" and local_id(ic["recv"]) == orig_param
                ctx.check(ok and req_ok, "K4-filter-entries", fe["fn"], "Allow:requested-subset-of-allowed",
                          "Allow(allowed) => filter_orig.get_attr_set() ⊆ allowed",
                          f"the Allow arm of filter_entries yields `{ex_s(c)[:100]}` instead of requested.is_subset(allowed) with requested = filter_orig.get_attr_set(): "
                          "an entry could be revealed through a filter term on an attribute the caller cannot read",
                          file=fe["file"], line=a["body"].get("line"))
            for v in vs:
                if v == SR + "::Deny":
                    seen.add("Deny")
                    t = peel(a["body"])
                    ctx.check(t.get("e") == "lit" and t.get("v") == "false", "K4-filter-entries", fe["fn"], "Deny:false", "Deny => false",
                              f"the Deny arm of filter_entries is `{ex_s(t)[:60]}`, not `false`", file=fe["file"], line=a["body"].get("line"))
                if v == SR + "::Grant":
                    seen.add("Grant")
        ctx.check({"Deny", "Allow"} <= seen, "K4-filter-entries", fe["fn"], "arms-complete", f"arms {sorted(seen)}",
                  f"decision arms {sorted(seen)} lack Deny/Allow", file=fe["file"], line=m.get("line"))
        fm = enclosing_adaptor(fe, m, "Iterator::filter")
        fl = Flow(fe["body"], (), extra_ok=lambda e: e is fm)
        for (x, kind) in result_exprs(fe["body"]):
            if is_err_value(x):
                continue
            c = core_of(x, b)
            ctx.check(is_empty_collection(c) or (fm is not None and fl.derived(c)), "K4-filter-entries", fe["fn"], f"result-is-filtered-set:{kind}",
                      "Ok(<entries that passed the decision match>) or Ok(empty)",
                      f"filter_entries returns `{ex_s(c)[:80]}`, not the collection produced by the decision match",
                      file=fe["file"], line=x.get("line"))

    # ---- (d) apply_search_access ----------------------------------------------------------------------
    asa = ctx.fn(LIB, APPLY)
    check_combiner(ctx, "K4-combiner", asa, SR, 4)
    # the allow set starts empty: the local appended to in the Allow arms is default-initialised
    allow_locals = set()
    for (mm, callee) in module_matches(asa["body"]):
        for a in mm["arms"]:
            if any(ends(v, "Allow") for v in arm_variants(a)):
                t = peel(a["body"])
                if t.get("e") == "mcall" and t["name"] in ("append", "extend") and local_id(t["recv"]) is not None:
                    allow_locals.add(local_id(t["recv"]))
                else:
                    ctx.violation("K4-combiner", asa["fn"], f"allow-arm:{short(callee, 1)}",
                                  f"the Allow arm for {short(callee, 1)} is `{ex_s(t)[:80]}`, expected allow.append(attr)", file=asa["file"], line=t.get("line"))
    for loc in allow_locals:
        inits = [s for s in walk(asa["body"]) if s.get("s") == "let" and s["pat"].get("p") == "bind" and s["pat"].get("local") == loc]
        ok = len(inits) == 1 and "init" in inits[0] and (is_empty_collection(inits[0]["init"]) or
                                                          callee_of(peel(inits[0]["init"])).endswith("Default>::default") or
                                                          callee_of(peel(inits[0]["init"])).endswith("::new"))
        ctx.check(ok, "K4-combiner", asa["fn"], "allow-set-starts-empty", "allow set starts empty",
                  "the allow set of apply_search_access is not initialised empty (search must start from deny)", file=asa["file"], line=asa["line"])
    ctx.check(len(allow_locals) == 1, "K4-combiner", asa["fn"], "single-allow-set", "one allow set", f"{len(allow_locals)} allow sets",
              file=asa["file"], line=asa["line"])

    # ---- (e) event constructors ------------------------------------------------------------------------
    n_ext = 0
    n_ev = 0
    FC = "kanidmd_lib::filter::FilterComp::"
    for w in WRAPPERS:
        wd = ctx.fn(LIB, w)
        inner = FC + ("new_ignore_hidden" if w in WRAP_HIDE else "new_recycled")
        st = [x for x in walk(wd["body"]) if x.get("e") == "struct" and x["path"].get("def") in ("kanidmd_lib::filter::FilterValid", "kanidmd_lib::filter::FilterInvalid")]
        ok = len(st) == 1 and any(f["f"] == "inner" and callee_of(peel(f["x"])) == inner for f in st[0]["fields"])
        ctx.check(ok, "K4-wrapper", w, f"wraps-with:{short(inner, 1)}", f"{short(w, 1)} = {short(inner, 1)}(inner)",
                  f"{short(w)} no longer stores {short(inner)}(..) as the filter", file=wd["file"], line=wd["line"])
    hid = ctx.fn(LIB, FC + "new_ignore_hidden")
    rec = ctx.fn(LIB, FC + "new_recycled")
    th, tr = tokens(hid["body"]), tokens(rec["body"])
    EC = "kanidmd_lib::constants::entries::EntryClass::"
    need_h = ["call:" + FC + "And", "call:" + FC + "AndNot", "call:" + FC + "Or", "def:" + EC + "Tombstone", "def:" + EC + "Recycled"]
    hid_top = peel(result_exprs(hid["body"])[0][0]) if result_exprs(hid["body"]) else {}
    ctx.check(all(t in th for t in need_h) and hid_top.get("ctor") == FC + "And", "K4-wrapper", hid["fn"], "shape:And(AndNot(Or(tombstone,recycled)),fc)",
              "ignore-hidden wrapper excludes tombstone and recycled",
              f"FilterComp::new_ignore_hidden is no longer And([AndNot(Or([class=tombstone, class=recycled])), fc]) (missing {[t for t in need_h if t not in th]})",
              file=hid["file"], line=hid["line"])
    rec_top = peel(result_exprs(rec["body"])[0][0]) if result_exprs(rec["body"]) else {}
    ctx.check(("def:" + EC + "Recycled") in tr and rec_top.get("ctor") == FC + "And" and not any(t in tr for t in ("call:" + FC + "Or", "call:" + FC + "AndNot")),
              "K4-wrapper", rec["fn"], "shape:And(class=recycled,fc)", "recycled wrapper requires class=recycled",
              "FilterComp::new_recycled is no longer And([class=recycled, fc])", file=rec["file"], line=rec["line"])
    for ev in EVENTS:
        evp = "kanidmd_lib::event::" + ev
        for crate in crates_with(F, struct_needle(evp), "hir"):
            for n in F.fns_mentioning(crate, struct_needle(evp)):
                d = F.fn(crate, n)
                if d.get("kind") not in ("fn", "assocfn"):
                    continue
                lits_ = [s for s in walk(d["body"]) if s.get("e") == "struct" and s["path"].get("def") == evp]
                if not lits_:
                    continue
                ctx.analysed_fns.add(d["fn"])
                if d["fn"] in INTERNAL_CTORS:
                    continue
                fl = Flow(d["body"], WRAPPERS)
                for i, s in enumerate(lits_):
                    n_ext += 1
                    if d["fn"].startswith("kanidmd_lib::event::"):
                        n_ev += 1
                    fx = [f["x"] for f in s["fields"] if f["f"] == "filter"]
                    ok = bool(fx) and "base" not in s and fl.derived(fx[0])
                    inst = f"{ev}.filter" + (f"#{i + 1}" if len(lits_) > 1 else "")
                    ctx.check(ok, "K3-event", d["fn"], inst, f"{ev}.filter wrapped by into_ignore_hidden()/into_recycled()",
                              f"{short(d['fn'])} builds a {ev} whose `filter` is `{ex_s(fx[0])[:80] if fx else '?'}`, not derived from into_ignore_hidden()/into_recycled(): "
                              "recycled and tombstoned entries become visible to this request",
                              file=d["file"], line=s.get("line"))
                    ctx.sample(f"{d['file']}:{s.get('line')} {short(d['fn'])} :: {ev}.filter <- {short(fl.trace[-1], 1) if fl.trace else '?'}")
    ctx.floor("K3-event", "externally fed event constructions", n_ext, 21)
    ctx.floor("K3-event", "externally fed constructors in event.rs", n_ev, 13)
    for c in INTERNAL_CTORS:
        ctx.fn(LIB, c)
    for crate in crates_with(F, "kanidmd_lib::event::"):
        if crate.split(".")[0] == LIB:
            continue
        for (caller, callee, resolved, ln, exp, sty) in F.calls(crate):
            if callee in INTERNAL_CTORS or resolved in INTERNAL_CTORS:
                ctx.violation("K3-event", base_fn(caller), f"calls-internal:{short(callee)}",
                              f"{caller} (crate {crate}) calls the internal constructor {short(callee)}, which does not wrap the filter", line=ln)
    ctx.ok("K3-event", "-", "internal-ctors-not-called-outside-lib", f"{len(INTERNAL_CTORS)} internal constructors have no caller outside kanidmd_lib")

    # ---- (f) LDAP -------------------------------------------------------------------------------------
    def unreduced_reader(callee):
        """A query-server method that yields un-reduced entries or an unfiltered existence bit."""
        if not (callee.startswith(QST) or callee.startswith("kanidmd_lib::server::QueryServerReadTransaction")
                or callee.startswith("kanidmd_lib::be::Backend")):
            return False
        if callee in (BE_SEARCH, BE_EXISTS) or "::internal_exists" in callee:
            return True
        d = F.fn(LIB, callee)
        return d is not None and "EntrySealed" in (d.get("ret") or "")

    VALIDATE = "validate_ldap_session"
    for name, api, need in (("do_search", QST + "search_ext", 1), ("do_compare", QST + "exists", 2)):
        fn = ctx.fn(LIB, "kanidmd_lib::idm::ldap::LdapServer::" + name)
        n_api = 0
        for (caller, callee, resolved, ln, exp, sty) in F.calls(LIB):
            if base_fn(caller) != fn["fn"]:
                continue
            if callee == api:
                n_api += 1
            elif unreduced_reader(callee) or unreduced_reader(resolved) or callee in (QST + "search_ext", QST + "exists", QST + "search"):
                ctx.violation("K1-ldap", fn["fn"], f"reads-via:{short(callee, 1)}",
                              f"LDAP {name} reads data through {short(callee)} instead of {short(api, 1)}", file=fn["file"], line=ln)
        ctx.floor("K1-ldap", f"{short(api, 1)} calls in LdapServer::{name}", n_api, need)
        fl_id = Flow(fn["body"], (VALIDATE,))
        evsrc = tuple(x for x in F.find_fns(LIB, r"^kanidmd_lib::event::SearchEvent::\w+$") if x not in INTERNAL_CTORS)
        n_evarg = 0
        for c in walk(fn["body"]):
            if c.get("e") == "mcall" and callee_of(c) == api:
                n_evarg += 1
                fl_ev = Flow(fn["body"], evsrc, extra_ok=lambda e: e.get("e") == "struct" and e["path"].get("def") == "kanidmd_lib::event::ExistsEvent")
                ctx.check(fl_ev.derived(c["args"][0]), "K1-ldap", fn["fn"], f"event-arg:{short(api, 1)}#{n_evarg}", "event built by a wrapping constructor in this function",
                          f"the event passed to {short(api, 1)} is `{ex_s(c['args'][0])[:60]}`, not built here by a filter-wrapping constructor", file=fn["file"], line=c.get("line"))
        idents = []
        for c in walk(fn["body"]):
            if c.get("e") == "call" and callee_of(c).startswith("kanidmd_lib::event::SearchEvent::"):
                cd = F.fn(LIB, callee_of(c))
                for i, p in enumerate(cd["params"] if cd else []):
                    if p["ty"].endswith("identity::Identity") and i < len(c["args"]):
                        idents.append((c["args"][i], c.get("line")))
            if c.get("e") == "struct" and c["path"].get("def") in ("kanidmd_lib::event::ExistsEvent", "kanidmd_lib::event::SearchEvent"):
                idents.extend((f["x"], c.get("line")) for f in c["fields"] if f["f"] == "ident")
        ctx.floor("K1-ldap", f"event identities in LdapServer::{name}", len(idents), need)
        for i, (x, ln) in enumerate(idents):
            ctx.check(fl_id.derived(x), "K1-ldap", fn["fn"], f"bound-identity#{i + 1}", "event identity = validate_ldap_session(bound token)",
                      f"LDAP {name} evaluates access as `{ex_s(x)[:60]}`, not as the identity returned by validate_ldap_session for the bound token",
                      file=fn["file"], line=ln)

    # ---- (g) request handlers -------------------------------------------------------------------------
    n_ext_calls = 0
    for (caller, callee, resolved, ln, exp, sty) in F.calls(CORE):
        b = base_fn(caller)
        if not b.startswith("kanidmd_core::actors::v1_"):
            continue        # request handlers only (admin-socket / CLI helpers act as the internal identity)
        if callee == QST + "search_ext":
            n_ext_calls += 1
            ctx.ok("K1-handlers", b, "reads-via:search_ext", "handler uses search_ext")
            ctx.analysed_fns.add(b)
        elif unreduced_reader(callee) or unreduced_reader(resolved):
            if b in HANDLER_ALLOW:
                ctx.ok("K1-handlers", b, f"allow-listed:{short(callee, 1)}", HANDLER_ALLOW[b])
                ctx.notes.append(f"O1: {b} calls {short(callee)} ({HANDLER_ALLOW[b]})")
            else:
                ctx.violation("K1-handlers", b, f"reads-via:{short(callee, 1)}",
                              f"{b} reads entries through {short(callee)}, which does not reduce attributes to the caller's read grants (use search_ext)",
                              line=ln)
    ctx.floor("K1-handlers", "search_ext call sites in kanidmd_core", n_ext_calls, 9)
    for nm in ("scim_entry_id_get_ext", "scim_search_filter_ext"):
        fn = ctx.fn(LIB, "kanidmd_lib::server::QueryServerReadTransaction::<'_>::" + nm)
        cs = [(callee, ln) for (caller, callee, resolved, ln, exp, sty) in F.calls(LIB) if base_fn(caller) == fn["fn"]]
        ctx.check(any(c == QST + "search_ext" for c, _ in cs), "K1-handlers", fn["fn"], "reads-via:search_ext", "SCIM read uses search_ext",
                  f"{nm} no longer calls search_ext", file=fn["file"], line=fn["line"])
        for c, ln in cs:
            if unreduced_reader(c):
                ctx.violation("K1-handlers", fn["fn"], f"reads-via:{short(c, 1)}", f"SCIM read path {nm} reads entries through {short(c)} (un-reduced)",
                              file=fn["file"], line=ln)
    for nm in ("scim_search_ext", "scim_search_message_ready_ext"):
        fn = ctx.fn(LIB, "kanidmd_lib::server::QueryServerReadTransaction::<'_>::" + nm)
        cs = [(callee, ln) for (caller, callee, resolved, ln, exp, sty) in F.calls(LIB) if base_fn(caller) == fn["fn"]]
        ctx.check(any(c.endswith("::scim_search_filter_ext") for c, _ in cs), "K1-handlers", fn["fn"], "reads-via:scim_search_filter_ext",
                  "delegates to scim_search_filter_ext", f"{nm} no longer delegates to scim_search_filter_ext", file=fn["file"], line=fn["line"])
        for c, ln in cs:
            if unreduced_reader(c) or c in (QST + "search",):
                ctx.violation("K1-handlers", fn["fn"], f"reads-via:{short(c, 1)}", f"SCIM read path {nm} reads entries through {short(c)} (un-reduced)",
                              file=fn["file"], line=ln)
    ctx.exhaustive = True


# ---------------------------------------------------------------------------------------------------------------------
# The readable attribute set of a search grant is what the parser makes of the stored profile (rules/lib/x_fields.py).

def search_profile_fields(ctx):
    from .lib.x_fields import check_field_sources
    P = "kanidmd_lib::server::access::profiles::"
    n = check_field_sources(ctx, LIB, "K5-profile-fields", [
        (P + "AccessControlSearch::try_from", P + "AccessControlSearch", {"attrs": {"AcpSearchAttr"}}),
        (P + "AccessControlProfile::try_from", P + "AccessControlProfile", {"receiver": {"AcpReceiverGroup"}, "target": {"AcpTargetScope"}}),
    ], "a search is then answered from a grant the administrator did not store", prefix="Acp")
    ctx.floor("K5-profile-fields", "search profile fields traced to their attributes", n, 3)
