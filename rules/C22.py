"""C22 SPNs are always name@domain — clause: hook completeness of Spn (K2).

Decided: `Spn`'s own hook runs, unconditionally and propagated, in the three pre-write registries *after* `Domain`
(which stamps the domain name the spn is derived from), and in post-modify, post-batch-modify and post-repl-incremental
(domain rename regeneration); the operations call those registries around the backend write.
Not decided: that the generated value equals name@domain (Entry::generate_spn / Spn::modify_inner logic).
"""
from .lib.x_plugins import Pipelines, hook_nontrivial

META = dict(
    technique="static pipeline extraction (K2): ordered plugin-hook lists of Plugins::run_* resolved to the impl's own methods, "
              "must/may flow analysis of the write operations",
    level_text="Every create/modify path and the replication path are enumerated from the type-checked code and shown to run Spn's own hook "
               "(after Domain before the write; again after the write to regenerate on domain rename), failures propagated. A missing hook provably "
               "leaves an spn stale; tests cover one create, one rename and one domain rename.",
    level_note="Decides the hook-completeness/ordering clause only. NOT decided: the plugin's own logic (that the value written is exactly "
               "name@current-domain and that exactly one spn exists). Trusted: rustc's method resolution, rules/lib/x_plugins.py tables.",
)

PRE = ["run_pre_create_transform", "run_pre_modify", "run_pre_batch_modify"]
POST = ["run_post_modify", "run_post_batch_modify", "run_post_repl_incremental"]


def run(ctx):
    ctx.explanation = ("K2 hook completeness/ordering: Spn (own hooks, propagated) after Domain in run_pre_create_transform/run_pre_modify/"
                       "run_pre_batch_modify, present in run_post_modify/run_post_batch_modify/run_post_repl_incremental; operations bracket the "
                       "backend write with these registries. The value computed by the plugin is not decided.")
    P = Pipelines(ctx)
    for r in PRE:
        P.contains("K2-contains", r, "Spn", "an account/group created or renamed on this path keeps a missing or stale spn")
        P.contains("K2-contains", r, "Domain", "the domain name the spn is derived from is not stamped on this path")
        P.before("K2-order", r, "Domain", "Spn", "Spn must see the domain attributes Domain fills in")
    for r in POST:
        P.contains("K2-contains", r, "Spn", "a domain rename (local or replicated) would not regenerate the spns of existing entries")
    P.check_registries("K2-propagated", PRE + POST, {"Spn", "Domain"})
    P.siblings_agree("K2-siblings", "run_pre_modify", "run_pre_batch_modify",
                     "a plugin present in only one of the two modify flavours leaves the other flavour unchecked", {"Spn", "Domain"})
    P.siblings_agree("K2-siblings", "run_post_modify", "run_post_batch_modify",
                     "a plugin present in only one of the two modify flavours leaves the other flavour unchecked", {"Spn"})
    P.check_ops("K2-op", PRE + POST)
    for hook in ["pre_create_transform", "pre_modify", "pre_batch_modify", "post_modify", "post_batch_modify", "post_repl_incremental"]:
        hook_nontrivial(ctx, "K2-hook-body", "spn", "Spn", hook)
