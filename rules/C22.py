"""C22 SPNs are always name@domain — clause: hook completeness of Spn (K2).

Decided: `Spn`'s own hook runs, unconditionally and propagated, in the three pre-write registries *after* `Domain`
(which stamps the domain name the spn is derived from), and in post-modify, post-batch-modify and post-repl-incremental
(domain rename regeneration); the operations call those registries around the backend write.
Not decided: that the generated value equals name@domain (Entry::generate_spn / Spn::modify_inner logic).
"""
from .lib.x_plugins import Pipelines, hook_nontrivial

META = dict(
    technique="static pipeline extraction (K2): ordered plugin-hook lists of Plugins::run_* resolved to the impl's own methods, "
              "must/may flow analysis of the write operations",
    level_text="Every create/modify path and the replication path are enumerated from the type-checked code and shown to run Spn's own hook "
               "(after Domain before the write; again after the write to regenerate on domain rename), failures propagated. A missing hook provably "
               "leaves an spn stale; tests cover one create, one rename and one domain rename.",
    level_note="Decides the hook-completeness/ordering clause only. NOT decided: the plugin's own logic (that the value written is exactly "
               "name@current-domain and that exactly one spn exists). Trusted: rustc's method resolution, rules/lib/x_plugins.py tables.",
)

PRE = ["run_pre_create_transform", "run_pre_modify", "run_pre_batch_modify"]
POST = ["run_post_modify", "run_post_batch_modify", "run_post_repl_incremental"]


def run(ctx):
    ctx.explanation = ("K2 hook completeness/ordering: Spn (own hooks, propagated) after Domain in run_pre_create_transform/run_pre_modify/"
                       "run_pre_batch_modify, present in run_post_modify/run_post_batch_modify/run_post_repl_incremental; operations bracket the "
                       "backend write with these registries. The value computed by the plugin is not decided.")
    P = Pipelines(ctx)
    for r in PRE:
        P.contains("K2-contains", r, "Spn", "an account/group created or renamed on this path keeps a missing or stale spn")
        P.contains("K2-contains", r, "Domain", "the domain name the spn is derived from is not stamped on this path")
        P.before("K2-order", r, "Domain", "Spn", "Spn must see the domain attributes Domain fills in")
    for r in POST:
        P.contains("K2-contains", r, "Spn", "a domain rename (local or replicated) would not regenerate the spns of existing entries")
    P.check_registries("K2-propagated", PRE + POST, {"Spn", "Domain"})
    P.siblings_agree("K2-siblings", "run_pre_modify", "run_pre_batch_modify",
                     "a plugin present in only one of the two modify flavours leaves the other flavour unchecked", {"Spn", "Domain"})
    P.siblings_agree("K2-siblings", "run_post_modify", "run_post_batch_modify",
                     "a plugin present in only one of the two modify flavours leaves the other flavour unchecked", {"Spn"})
    P.check_ops("K2-op", PRE + POST)
    for hook in ["pre_create_transform", "pre_modify", "pre_batch_modify", "post_modify", "post_batch_modify", "post_repl_incremental"]:
        hook_nontrivial(ctx, "K2-hook-body", "spn", "Spn", hook)
    spn_regenerated_for_every_account_and_group(ctx)


# ---------------------------------------------------------------------------------------------------------------------
# The pre-write hooks go through Spn::modify_inner, which regenerates the spn of EVERY account / group candidate from its
# name and the current domain name. Revive and replication rely on that: a recycled entry keeps its old spn across a domain
# rename, and only the unconditional regeneration on revive corrects it. (added after seeded change C22: regeneration skipped
# when name and spn equal the pre-image)

def spn_regenerated_for_every_account_and_group(ctx):
    from .lib.hir import walk, unwrap, tokens, has_token
    from .lib import pathcond as pc
    R = "K3-spn-regenerated-unconditionally"
    LIBC = "kanidmd_lib"
    f = ctx.fn(LIBC, "kanidmd_lib::plugins::spn::Spn::modify_inner")

    def is_set(n):
        return (n.get("e") == "mcall" and n.get("name") in ("set_ava_set", "set_ava") and not n.get("exp")
                and has_token(tokens({"a": n.get("args", [])}), "def", "Attribute::Spn"))
    binds = pc.collect_binds(f["body"])
    sites = pc.site_conditions(f["body"], is_set)
    ctx.floor(R, "spn assignments in Spn::modify_inner", len(sites), 1)
    for (site, conds) in sites:
        extra = []
        lits = pc.implied(conds, binds)
        for (pol, leaf) in lits.values():
            toks = pc.leaf_tokens(leaf)
            allowed = (has_token(toks, "def", "EntryClass::Group", "EntryClass::Account") or has_token(toks, "call", "generate_spn")
                       or has_token(toks, "call", "Iterator::next", "IntoIterator::into_iter")
                       or all(t.startswith("call:") and ("tracing" in t or "core::" in t) for t in toks if t.startswith("call:")) and not any(t.startswith("field:") for t in toks) and not has_token(toks, "call", "get_ava_set", "attribute_pres", "get"))
            if not allowed:
                extra.append(("" if pol else "NOT ") + pc.leaf_key(leaf)[:120])
        for conj in pc.blocked(conds):
            for (pol, leaf) in conj:
                toks = pc.leaf_tokens(leaf)
                if not (has_token(toks, "def", "EntryClass::Group", "EntryClass::Account") or has_token(toks, "call", "generate_spn")
                        or has_token(toks, "call", "Iterator::next", "IntoIterator::into_iter")):      # for-loop desugaring
                    extra.append("blocked: " + pc.leaf_key(leaf)[:120])
        ctx.check(not extra, R, f["fn"], "set-spn-under-class-test-only", "spn is set for every account/group candidate",
                  f"Spn::modify_inner sets the spn only when an additional condition holds ({extra[:3]}): an account or group for which it does not hold keeps its "
                  "stored spn. Entries that were recycled during a domain rename (their spn is not touched by the rename) are revived with name@old-domain, and "
                  "replicated entries keep a foreign spn", file=f["file"], line=site.get("line"))
