"""C36 Removing a credential revokes its sessions — clauses decided statically.

 (a) K2  `SessionConsistency`'s own hook is in run_pre_modify and run_pre_batch_modify (propagated; the operations
         run them before the backend write) and both hooks are `modify_inner` applied to every candidate;
 (b) K8  the credential-id set that `modify_inner` builds reads at least {PrimaryCredential, PassKeys,
         AttestedPasskeys, OAuth2AccountCredentialUuid} of the candidate, and every credential attribute from which
         `Account` builds authentication credentials for interactive sessions;
 (c) K3  in the per-session filter every "keep" (None) outcome is justified by `state = RevokedAt` or
         `cred_ids.contains(session.cred_id)`, so a non-revoked session whose credential is not listed is selected,
         and the selection is removed from UserAuthTokenSession of the *same* candidate under no other condition;
 (d) K3  OAuth2 sessions: every "keep" outcome is justified by `RevokedAt`, a valid parent (parent id present AND
         found AND not RevokedAt; absent session map => invalid) or `issued_at + AUTH_TOKEN_GRACE_WINDOW > now`;
         the selection is removed from OAuth2Session of the same candidate;
 (e) K3  `check_oauth2_account_uuid_valid` returns the entry only when none of these holds: oauth2 session revoked;
         parent present and revoked; parent id given but no user/api session and grace passed; oauth2 session
         missing and grace passed.
Not decided: that every issued session records the credential id it was issued with (AuthSession::issue_uat),
replicated removals on other servers, timing of delayed session writes.
"""
from .lib.hir import (walk, unwrap, callee_of, callee_any, ends, short, def_of, tokens, has_token, pat_alternatives, ex_s)
from .lib import pathcond as pc
from .lib.x_plugins import Pipelines, Flow, success_exits, hook_fn, LIB

META = dict(
    technique="plugin pipeline extraction (K2), attribute-set extraction (K8) and path conditions of keep/remove outcomes (K3, incl. blocked "
              "conjunctions) on type-checked HIR",
    level_text="Every outcome site of the session filters (each `None`/`Some` of the filter closures, enumerated per SessionState variant from the "
               "enum's item facts) and every success exit of the OAuth2 token check is enumerated and shown to carry the required guard, for all "
               "credential kinds at once. Tests script one credential removal and one orphaned OAuth2 session.",
    level_note="Decides clauses (a)-(e) of rules/C36.py (structure of the consistency plugin and of the OAuth2 parent check). NOT decided: that "
               "every login records the issuing credential id, behaviour over replicated histories, and the delayed-action queue. "
               "Trusted: rustc's resolution, the rule tables.",
)

A = "kanidm_proto::attribute::Attribute::"
CRED_ATTRS = ["PrimaryCredential", "PassKeys", "AttestedPasskeys", "OAuth2AccountCredentialUuid"]
CRED_GETTERS = ("get_ava_single_credential", "get_ava_passkeys", "get_ava_attestedpasskeys")
REVOKED = "value::SessionState::RevokedAt"
RULE_B, RULE_C, RULE_D, RULE_E = "K8-credential-set", "K3-uat-sessions", "K3-oauth2-sessions", "K3-oauth2-parent-check"


def local_of(e):
    e = unwrap(e)
    if isinstance(e, dict) and e.get("e") == "path" and "local" in e["res"]:
        return e["res"]["local"]
    return None


def mentions_local(e, loc):
    return any(n.get("e") == "path" and n["res"].get("local") == loc for n in walk(e))


def closures_containing(root, node):
    """closure nodes under root that contain node, outermost first"""
    out = []
    for c in walk(root):
        if c.get("e") == "closure" and any(n is node for n in walk(c["body"])):
            out.append(c)
    return out


def value_leaves(e):
    if not isinstance(e, dict):
        return
    k = e.get("e")
    if k == "blockexpr":
        yield from value_leaves(e["b"])
    elif k == "block":
        if "tail" in e:
            yield from value_leaves(e["tail"])
        else:
            yield e
    elif k == "if":
        yield from value_leaves(e["then"])
        if "else" in e:
            yield from value_leaves(e["else"])
    elif k == "match" and e.get("src") == "Normal":
        for a in e["arms"]:
            yield from value_leaves(a["body"])
    else:
        yield e


def is_none(e):
    e = unwrap(e)
    return isinstance(e, dict) and e.get("e") == "path" and ends(e["res"].get("def", ""), "core::option::Option::None")


def is_some(e):
    e = unwrap(e)
    return isinstance(e, dict) and e.get("e") == "call" and ends(e.get("ctor") or "", "core::option::Option::Some")


def pattern_binds(body):
    """local -> init for let statements AND if-let / let-else patterns (every binding inside the pattern)"""
    m = {}
    for n in walk(body):
        if (n.get("s") == "let" or n.get("e") == "let") and "init" in n:
            for b in walk(n["pat"]):
                if b.get("p") == "bind":
                    m[b["local"]] = n["init"]
    return m


def derives(loc, target_pred, pb, depth=4):
    """local `loc` is bound (transitively) from an expression satisfying target_pred"""
    if loc is None or depth < 0:
        return False
    init = pb.get(loc)
    if init is None:
        return False
    if target_pred(init):
        return True
    for n in walk(init, into_closures=False):
        l = n["res"].get("local") if n.get("e") == "path" else None
        if l is not None and l != loc and derives(l, target_pred, pb, depth - 1):
            return True
    return False


def check_removal(ctx, rule, rec, tfe_body, fm_closure, attr, entry_local, pb, what):
    """the collection built by fm_closure is removed from `attr` of the same entry under no other condition"""
    fn = rec["fn"]
    contains_fm = lambda e: any(n is fm_closure for n in walk(e))
    rem = None
    for n in walk(tfe_body):
        if n.get("e") == "mcall" and ends(callee_of(n), "remove_avas") and not n.get("exp") and len(n["args"]) == 2 \
                and has_token(tokens(n["args"][0]), "def", A + attr) and derives(local_of(n["args"][1]), contains_fm, pb):
            rem = n
    if not ctx.check(rem is not None, rule, fn, f"removed-from:{attr}", f"selection removed with remove_avas({attr}, ..)",
                     f"the {what} selected by the filter are not passed to entry.remove_avas(Attribute::{attr}, ..): they are computed but stay on the entry",
                     file=rec["file"], line=fm_closure.get("line")):
        return
    ctx.check(local_of(rem["recv"]) == entry_local, rule, fn, f"same-candidate:{attr}", "removal on the candidate the sessions were read from",
              f"remove_avas(Attribute::{attr}) is applied to a different entry than the one whose sessions were examined", file=rec["file"], line=rem.get("line"))
    sites = pc.site_conditions(tfe_body, lambda n: n is rem)
    ok = len(sites) == 1
    extra = []
    if ok:
        for f in sites[0][1]:
            if f[0] == "leaf" and f[1] == "let" and derives_expr(f[2][1], contains_fm, pb):
                continue
            if f == pc.TRUE:
                continue
            extra.append(pc.render({(True, pc.leaf_key(f)): (True, f)}) if f[0] == "leaf" else str(f[0]))
    ctx.check(ok and not extra, rule, fn, f"unconditional-removal:{attr}", "removal guarded only by `if let Some(set) = selection`",
              f"the removal of the selected {what} from Attribute::{attr} is subject to additional conditions {extra}: "
              f"selected sessions may survive the change", file=rec["file"], line=rem.get("line"))


def derives_expr(e, pred, pb):
    if pred(e):
        return True
    for n in walk(e, into_closures=False):
        l = n["res"].get("local") if n.get("e") == "path" else None
        if l is not None and derives(l, pred, pb):
            return True
    return False


def state_variants(ctx):
    en = ctx.facts.item(LIB, "enum", "kanidmd_lib::value::SessionState")
    vs = [v["v"] for v in en["variants"]] if en else []
    ctx.floor(RULE_C, "SessionState variants", len(vs), 3)
    return vs


def check_modify_inner(ctx):
    rec = ctx.fn(LIB, "kanidmd_lib::plugins::session::SessionConsistency::modify_inner")
    fn = rec["fn"]
    body = rec["body"]
    # the per-candidate closure
    tfe = [n for n in walk(body) if n.get("e") == "mcall" and ends(callee_of(n), "Iterator::try_for_each") and not n.get("exp")]
    fl = Flow(ctx.facts, LIB, {"T": lambda n: any(n is t for t in tfe)})
    succ = success_exits(fl.run(rec))
    if not ctx.check(bool(tfe) and bool(succ) and all("T" in x.st.must for x in succ), RULE_C, fn, "applies-to-every-candidate",
                     "result is cand.iter_mut().try_for_each(..)",
                     "modify_inner can succeed without the per-candidate consistency closure having run (shape not understood)",
                     file=rec["file"], line=rec["line"]):
        return
    t = tfe[0]
    clos = [unwrap(a) for a in t["args"] if unwrap(a).get("e") == "closure"]
    if not ctx.check(len(clos) == 1 and has_token(tokens(t["recv"]), "call", "iter_mut", "iter"), RULE_C, fn, "closure-found", "closure over all candidates",
                     "try_for_each is not applied to a closure over cand.iter_mut() (shape not understood)", file=rec["file"], line=t.get("line")):
        return
    cbody = clos[0]["body"]
    entry_local = None
    ps = clos[0].get("params") or []
    if ps and isinstance(ps[0], dict):
        p = ps[0].get("pat", ps[0])
        if p.get("p") == "bind":
            entry_local = p["local"]
    pb = pattern_binds(cbody)

    # ---- (b) credential id set ------------------------------------------------------------------------------------------------
    cont = None
    for n in walk(cbody):
        if n.get("e") == "mcall" and ends(callee_of(n), "::contains", "contains") and not n.get("exp") \
                and has_token(tokens({"a": n["args"]}), "field", "cred_id"):
            cont = n
    if not ctx.check(cont is not None and local_of(cont["recv"]) in pb, RULE_B, fn, "cred-test-found", "cred_ids.contains(&session.cred_id)",
                     "modify_inner no longer tests session.cred_id against a set of credential ids — sessions of removed credentials are not revoked",
                     file=rec["file"], line=rec["line"]):
        return
    cset = local_of(cont["recv"])
    cinit = pb[cset]
    ctoks = tokens(cinit)
    for attr in CRED_ATTRS:
        ctx.check(has_token(ctoks, "def", A + attr), RULE_B, fn, f"covers:{attr}", f"credential ids of {attr} included",
                  f"the credential-id set of SessionConsistency does not read Attribute::{attr}: sessions issued with that credential kind would be revoked "
                  f"on every modify (or, if it were the only kind, never matched) — the set must cover every credential that can issue a session",
                  file=rec["file"], line=cinit.get("line"))
    # read from the candidate itself
    getters = [n for n in walk(cinit) if n.get("e") == "mcall" and short(callee_of(n), 1).startswith("get_ava")]
    ctx.check(bool(getters) and all(local_of(g["recv"]) == entry_local for g in getters) and entry_local is not None, RULE_B, fn, "reads-candidate",
              "credential ids are read from the candidate (post-modification state)",
              "the credential ids are not all read from the candidate entry being modified", file=rec["file"], line=cinit.get("line"))
    # cross-check with Account: credential attributes used to build interactive credentials
    acct_attrs = set()
    acct_fns = ctx.facts.find_fns(LIB, r"^kanidmd_lib::idm::account::Account::try_from_entry_(ro|rw|no_groups|reduced)?")
    for an in acct_fns:
        d = ctx.facts.fn(LIB, an)
        for n in walk(d["body"]):
            if n.get("e") == "mcall" and short(callee_of(n), 1) in CRED_GETTERS:
                for tk in tokens({"a": n["args"]}):
                    if tk.startswith("def:" + A):
                        acct_attrs.add(tk[len("def:" + A):])
    ctx.floor(RULE_B, "credential attributes read by Account::try_from_entry*", len(acct_attrs), 3)
    for attr in sorted(acct_attrs):
        if attr == "UnixPassword":
            # unix password logins do not create user auth token sessions (auth_with_unix_pass issues no UAT)
            ctx.ok(RULE_B, fn, f"account-credential:{attr}", "unix password: no session is issued from it (excluded with reason)")
            continue
        ctx.check(has_token(ctoks, "def", A + attr), RULE_B, fn, f"account-credential:{attr}", f"Account credential {attr} is in the set",
                  f"Account loads credentials from Attribute::{attr} but SessionConsistency's credential-id set does not read it: "
                  f"sessions issued with it would be revoked spuriously / never tied to its removal", file=rec["file"], line=cinit.get("line"))
    ctx.sample("credential-id set reads: " + ", ".join(sorted(t_[len('def:' + A):] for t_ in ctoks if t_.startswith('def:' + A))))

    # ---- (c) user auth token sessions -------------------------------------------------------------------------------------------
    cl = closures_containing(cbody, cont)
    if not ctx.check(bool(cl), RULE_C, fn, "filter-closure-found", "filter closure", "credential test is not inside a filter closure (shape not understood)",
                     file=rec["file"], line=cont.get("line")):
        return
    fm = cl[-1]
    outs = list(value_leaves(fm["body"]))
    n_keep = n_rm = 0
    binds = pc.collect_binds(cbody)
    sites = pc.site_conditions(fm["body"], lambda n: any(n is o for o in outs))
    cond_of = {id(s): c for s, c in sites}
    for o in outs:
        if is_some(o):
            n_rm += 1
            continue
        conds = cond_of.get(id(o))
        lits = pc.implied(conds or [], binds)
        just = None
        if conds is not None and is_none(o):
            if pc.arm_lit(lits, REVOKED):
                just = "already-revoked"
            for (p, leaf) in lits.values():
                if p and leaf[1] == "expr" and unwrap(leaf[2]) is cont:
                    just = "credential-present"
        n_keep += 1
        ctx.check(just is not None, RULE_C, fn, f"keep-outcome:{just or 'unjustified'}", f"session kept because {just}",
                  "the session filter keeps (returns None / a non-removal value for) a session on a path where neither `state = RevokedAt` nor "
                  "`cred_ids.contains(&session.cred_id)` holds — a live session whose credential was removed survives "
                  f"[path: {[x for x in pc.render(lits) if 'tracing' not in x][:4]}]", file=rec["file"], line=o.get("line"))
    ctx.check(n_rm >= 1, RULE_C, fn, "remove-outcome", f"{n_rm} removal outcome(s)", "the session filter never selects a session for removal",
              file=rec["file"], line=fm.get("line"))
    ctx.floor(RULE_C, "keep outcomes of the credential filter", n_keep, 2)
    # iterates the session map of the candidate
    chk_src = lambda e: any(n.get("e") == "mcall" and ends(callee_of(n), "get_ava_as_session_map") and has_token(tokens({"a": n["args"]}), "def", A + "UserAuthTokenSession")
                            and local_of(n["recv"]) == entry_local for n in walk(e, into_closures=False))
    holder = [n for n in walk(cbody) if n.get("s") == "let" and "init" in n and any(x is fm for x in walk(n["init"]))]
    ctx.check(bool(holder) and chk_src(holder[0]["init"]), RULE_C, fn, "source:UserAuthTokenSession", "filters entry.get_ava_as_session_map(UserAuthTokenSession)",
              "the credential filter does not run over the candidate's UserAuthTokenSession map", file=rec["file"], line=fm.get("line"))
    check_removal(ctx, RULE_C, rec, cbody, fm, "UserAuthTokenSession", entry_local, pb, "user auth sessions")

    # ---- (d) oauth2 sessions --------------------------------------------------------------------------------------------------------
    gr = None
    for n in walk(cbody):
        if n.get("e") == "if" and not n.get("exp"):
            c = unwrap(n["cond"])
            if c.get("e") == "bin" and c["op"] in ("<=", "<") and has_token(tokens(c["l"]), "field", "issued_at") \
                    and has_token(tokens(c["l"]), "def", "AUTH_TOKEN_GRACE_WINDOW") and not has_token(tokens(c["r"]), "def", "AUTH_TOKEN_GRACE_WINDOW"):
                gr = n
    if not ctx.check(gr is not None, RULE_D, fn, "grace-test-found", "session.issued_at + AUTH_TOKEN_GRACE_WINDOW <= now",
                     "modify_inner no longer compares `session.issued_at + AUTH_TOKEN_GRACE_WINDOW` with the current time: orphan OAuth2 sessions are "
                     "never (or immediately) removed", file=rec["file"], line=rec["line"]):
        return
    now_ok = derives_expr(unwrap(gr["cond"])["r"], lambda e: has_token(tokens(e), "call", "get_curtime"), pattern_binds(body))
    ctx.check(now_ok, RULE_D, fn, "grace-test-uses-txn-time", "compared with the transaction time",
              "the grace window is not compared with qs.get_curtime()", file=rec["file"], line=gr.get("line"))
    cl2 = closures_containing(cbody, gr)
    fm2 = cl2[-1] if cl2 else None
    if not ctx.check(fm2 is not None, RULE_D, fn, "filter-closure-found", "filter closure", "grace test is not inside a filter closure (shape not understood)",
                     file=rec["file"], line=gr.get("line")):
        return
    outs2 = list(value_leaves(fm2["body"]))
    sites2 = pc.site_conditions(fm2["body"], lambda n: any(n is o for o in outs2))
    cond_of2 = {id(s): c for s, c in sites2}
    pv_exprs = []
    n_keep2 = n_rm2 = 0
    for o in outs2:
        if is_some(o):
            n_rm2 += 1
            continue
        conds = cond_of2.get(id(o))
        lits = pc.implied(conds or [], binds)
        just = None
        if conds is not None and is_none(o):
            if pc.arm_lit(lits, REVOKED):
                just = "already-revoked"
            for (p, leaf) in lits.values():
                if leaf[1] != "expr":
                    continue
                x = unwrap(leaf[2])
                if (not p) and x is unwrap(gr["cond"]):
                    just = just or "within-grace-window"
                if p and has_token(tokens(x), "field", "parent") and has_token(tokens(x), "def", REVOKED):
                    just = just or "parent-valid"
                    if not any(x is y for y in pv_exprs):
                        pv_exprs.append(x)
        n_keep2 += 1
        ctx.check(just is not None, RULE_D, fn, f"keep-outcome:{just or 'unjustified'}", f"oauth2 session kept because {just}",
                  "the OAuth2 session filter keeps a session on a path where it is neither already revoked, nor has a valid parent, nor is within the "
                  f"grace window — an orphaned OAuth2 session stays usable [path: {[x for x in pc.render(lits) if 'tracing' not in x][:4]}]",
                  file=rec["file"], line=o.get("line"))
    ctx.check(n_rm2 >= 1 and any(any(n is o for n in walk(gr["then"])) for o in outs2 if is_some(o)), RULE_D, fn, "orphan-past-grace=>removed",
              "past the grace window without valid parent => removed",
              "the branch taken when the grace window has passed does not select the session for removal", file=rec["file"], line=gr.get("line"))
    ctx.floor(RULE_D, "keep outcomes of the oauth2 filter", n_keep2, 3)
    # parent-valid expression: missing / revoked parent => false
    ctx.check(len(pv_exprs) >= 1, RULE_D, fn, "parent-test-found", "parent validity test", "no parent-session validity test guards the keep outcome",
              file=rec["file"], line=gr.get("line"))
    for pv in pv_exprs:
        check_parent_valid(ctx, rec, pv, entry_local, pb)
    holder2 = [n for n in walk(cbody) if n.get("s") == "let" and "init" in n and any(x is fm2 for x in walk(n["init"]))]
    src2 = lambda e: any(n.get("e") == "mcall" and ends(callee_of(n), "get_ava_as_oauth2session_map") and has_token(tokens({"a": n["args"]}), "def", A + "OAuth2Session")
                         and local_of(n["recv"]) == entry_local for n in walk(e, into_closures=False))
    ctx.check(bool(holder2) and src2(holder2[0]["init"]), RULE_D, fn, "source:OAuth2Session", "filters entry.get_ava_as_oauth2session_map(OAuth2Session)",
              "the orphan filter does not run over the candidate's OAuth2Session map", file=rec["file"], line=fm2.get("line"))
    check_removal(ctx, RULE_D, rec, cbody, fm2, "OAuth2Session", entry_local, pb, "OAuth2 sessions")


def check_parent_valid(ctx, rec, pv, entry_local, pb):
    """pv = sessions.map(|m| ..).unwrap_or(false): true only if (no parent id) or (parent found and not RevokedAt)"""
    fn = rec["fn"]
    x = unwrap(pv)
    ok_shape = x.get("e") == "mcall" and ends(callee_of(x), "Option::<T>::unwrap_or") and len(x["args"]) == 1
    dflt_false = ok_shape and unwrap(x["args"][0]).get("e") == "lit" and unwrap(x["args"][0]).get("v") == "false"
    inner = unwrap(x["recv"]) if ok_shape else {}
    is_map = inner.get("e") == "mcall" and ends(callee_of(inner), "Option::<T>::map") and len(inner.get("args", [])) == 1 \
        and unwrap(inner["args"][0]).get("e") == "closure"
    src_ok = is_map and derives_expr(inner["recv"], lambda e: any(
        n.get("e") == "mcall" and ends(callee_of(n), "get_ava_as_session_map") and has_token(tokens({"a": n["args"]}), "def", A + "UserAuthTokenSession")
        and local_of(n["recv"]) == entry_local for n in walk(e, into_closures=False)), pb)
    if not ctx.check(ok_shape and dflt_false and is_map and src_ok, RULE_D, fn, "parent-test:no-session-map=>invalid",
                     "sessions.map(..).unwrap_or(false) over the candidate's UserAuthTokenSession map",
                     "the parent validity test is not `entry.get_ava_as_session_map(UserAuthTokenSession).map(|m| ..).unwrap_or(false)`: an account without "
                     "any user session could count as having a valid parent (shape not understood / default not false)",
                     file=rec["file"], line=x.get("line")):
        return
    clo = unwrap(inner["args"][0])
    outs = list(value_leaves(clo["body"]))
    sites = pc.site_conditions(clo["body"], lambda n: any(n is o for o in outs))
    n = 0
    for (o, conds) in sites:
        lits = pc.implied(conds, {})
        has_pid = found = not_found = no_pid = False
        for (p, leaf) in lits.values():
            if leaf[1] == "let":
                init = leaf[2][1]
                if has_token(tokens(init), "field", "parent"):
                    has_pid, no_pid = has_pid or p, no_pid or (not p)
                elif has_token(tokens(init), "call", "BTreeMap::<K, V, A>::get", "get"):
                    found, not_found = found or p, not_found or (not p)
        u = unwrap(o)
        if no_pid:
            kind, ok = "no-parent-id", True          # the session is not bounded by a parent
        elif has_pid and found:
            f = pc.cond(u)
            ok = f[0] == "not" and f[1][0] == "leaf" and f[1][1] == "arm" and has_token(tokens(f[1][2][1]), "def", REVOKED)
            kind = "parent-found=>not-revoked"
        elif has_pid and not_found:
            ok = u.get("e") == "lit" and u.get("v") == "false"
            kind = "parent-missing=>false"
        else:
            kind, ok = "unclassified", False
        n += 1
        ctx.check(ok, RULE_D, fn, f"parent-test:{kind}", f"{kind}: {ex_s(u)[:60]}",
                  f"parent validity test: outcome `{ex_s(u)[:80]}` on path {[k for k in pc.render(lits) if 'tracing' not in k][:3]} — a missing or revoked "
                  f"parent session would still count as valid", file=rec["file"], line=u.get("line"))
    ctx.floor(RULE_D, "outcomes of the parent validity test", n, 3)


# ---------------------------------------------------------------------------------------------------------------------
def check_token_validation(ctx):
    rec = ctx.fn(LIB, "kanidmd_lib::idm::server::IdmServerTransaction::check_oauth2_account_uuid_valid")
    fn = rec["fn"]
    body = rec["body"]
    binds = pc.collect_binds(body)
    pb = pattern_binds(body)
    params = {}
    for p in rec["params"]:
        if p["pat"].get("p") == "bind":
            params[p["pat"]["local"]] = p

    def src(e, getter, attr):
        return derives_expr(e, lambda x: any(n.get("e") == "mcall" and ends(callee_of(n), getter) and has_token(tokens({"a": n["args"]}), "def", A + attr)
                                             for n in walk(x)), pb)

    def label(pol, leaf, o2_locals, uat_locals):
        """-> label or None"""
        kind = leaf[1]
        if kind == "let":
            pat, init = leaf[2]
            if not has_token(tokens(pat), "def", "core::option::Option::Some"):
                return None
            l = local_of(init)
            if l in params and "Option<uuid::Uuid>" in params[l]["ty"].replace("core::option::", ""):
                return "PID"
            if src(init, "get_ava_as_oauth2session_map", "OAuth2Session"):
                o2_locals.update(b["local"] for b in walk(pat) if b.get("p") == "bind")
                return "O2"
            if src(init, "get_ava_as_session_map", "UserAuthTokenSession"):
                uat_locals.update(b["local"] for b in walk(pat) if b.get("p") == "bind")
                return "UAT"
            return None
        if kind == "arm":
            scrut, pat = leaf[2]
            if has_token(tokens(pat), "def", REVOKED) and has_token(tokens(scrut), "field", "state"):
                ls = {n["res"].get("local") for n in walk(scrut) if n.get("e") == "path"}
                if ls & o2_locals:
                    return "REV(o2)"
                if ls & uat_locals:
                    return "REV(uat)"
            return None
        if kind == "expr":
            x = unwrap(leaf[2])
            if x.get("e") == "mcall" and ends(callee_of(x), "Option::<T>::is_some") and src(x["recv"], "get_ava_as_apitoken_map", "ApiTokenSession"):
                return "API"
            l = local_of(x)
            g = binds.get(l) if l is not None else x
            g = unwrap(g) if g is not None else None
            if g is not None and g.get("e") == "bin" and g["op"] in ("<", "<=") and has_token(tokens(g["r"]), "def", "AUTH_TOKEN_GRACE_WINDOW") \
                    and not has_token(tokens(g["l"]), "def", "AUTH_TOKEN_GRACE_WINDOW"):
                return "GRACE"
        return None

    def expand(conj):
        """replace (pol, local bound to a boolean expression) by the single conjunction of its definition, where possible"""
        out = []
        for (p, leaf) in conj:
            if leaf[1] == "expr":
                l = local_of(leaf[2])
                if l is not None and l in binds:
                    init = unwrap(binds[l])
                    if not (init.get("e") == "bin" and init["op"] in ("<", "<=", ">", ">=")):
                        d = pc._dnf(pc.cond(binds[l]), p)
                        if len(d) == 1:
                            out.extend(d[0])
                            continue
            out.append((p, leaf))
        return out

    def is_sink(n):
        return n.get("e") == "call" and not n.get("exp") and ends(n.get("ctor") or "", "core::option::Option::Some")
    sinks = [(s, c) for (s, c) in pc.site_conditions(body, is_sink)
             if "Entry" in s.get("ty", "") or "Arc" in s.get("ty", "")]
    ctx.floor(RULE_E, "success exits returning the account entry", len(sinks), 1)
    REQ = {
        "oauth2-session-revoked": {(True, "O2"), (True, "REV(o2)")},
        "parent-revoked": {(True, "O2"), (True, "PID"), (True, "UAT"), (True, "REV(uat)")},
        "parent-missing-past-grace": {(True, "O2"), (True, "PID"), (False, "UAT"), (False, "API"), (False, "GRACE")},
        "oauth2-session-missing-past-grace": {(False, "O2"), (False, "GRACE")},
    }
    for (s, conds) in sinks:
        o2l, uatl = set(), set()
        bl = []
        # two passes so that REV(..) arms can be attributed after the lets were seen
        raw = [expand(c) for c in pc.blocked(conds)]
        for c in raw:
            for (p, leaf) in c:
                label(p, leaf, o2l, uatl)
        for c in raw:
            labs = set()
            for (p, leaf) in c:
                labs.add((p, label(p, leaf, o2l, uatl)))
            bl.append(labs)
        for name, req in REQ.items():
            ok = any(c and all(lab is not None for (_, lab) in c) and c <= req for c in bl)
            ctx.check(ok, RULE_E, fn, f"rejected:{name}", f"{name} never reaches Ok(Some(entry))",
                      f"check_oauth2_account_uuid_valid can return the account entry although: {name} "
                      f"(required blocked condition {sorted(('' if p else 'not ') + l for p, l in req)} not found among the guards of the success exit) — "
                      f"an OAuth2 token whose session/parent is revoked or missing keeps working", file=rec["file"], line=s.get("line"))
        ctx.sample("check_oauth2_account_uuid_valid success exit blocked when: " +
                   " | ".join(" & ".join(("" if p else "!") + str(l) for p, l in sorted(c, key=str)) for c in bl if c and all(l for _, l in c)))


def run(ctx):
    ctx.explanation = ("(a) SessionConsistency (own hooks, propagated) in run_pre_modify and run_pre_batch_modify, before the backend write; "
                       "(b) its credential-id set reads PrimaryCredential, PassKeys, AttestedPasskeys, OAuth2AccountCredentialUuid and every credential "
                       "attribute Account loads; (c) sessions are kept only if RevokedAt or credential present, the rest is removed from the same "
                       "candidate; (d) OAuth2 sessions are kept only if revoked / parent valid / within grace, else removed; "
                       "(e) check_oauth2_account_uuid_valid rejects revoked or missing session/parent past the grace window.")
    P = Pipelines(ctx)
    pre = ["run_pre_modify", "run_pre_batch_modify"]
    for r in pre:
        P.contains("K2-contains", r, "SessionConsistency", "a credential removed through this modify flavour leaves its sessions live")
    P.check_registries("K2-propagated", pre, {"SessionConsistency"})
    P.siblings_agree("K2-siblings", "run_pre_modify", "run_pre_batch_modify",
                     "a plugin present in only one of the two modify flavours leaves the other flavour unchecked", {"SessionConsistency"})
    P.check_ops("K2-op", pre, need_post=False)
    for hook in ("pre_modify", "pre_batch_modify"):
        rec = hook_fn(ctx, "session", "SessionConsistency", hook)
        fl = Flow(ctx.facts, LIB, {"I": lambda n: n.get("e") in ("call", "mcall") and ends(callee_of(n), "session::SessionConsistency::modify_inner")}, no_inline=())
        succ = success_exits(fl.run(rec))
        ctx.check(bool(succ) and all("I" in x.st.must for x in succ), "K2-hook-body", rec["fn"], "delegates:modify_inner",
                  f"SessionConsistency::{hook} -> modify_inner", f"SessionConsistency::{hook} can succeed without running modify_inner",
                  file=rec["file"], line=rec["line"])
    check_modify_inner(ctx)
    check_token_validation(ctx)
