"""C46 RADIUS secrets go only to members of required groups — K3 on the secret-carrying response, K4 on the predicate and the VLAN fold.

Facts: rlm_kanidm's `logic` module is compiled out of the default build (cfg(any(test, feature = "extern-freeradius-module")));
it is analysed through a shim crate root (rules/lib/x_rlmfacts.py) that compiles the *unmodified* logic.rs / error.rs without
cfg(test) and without the feature. If the shim cannot be built, or Module::authorise has no body, the check fails closed.

Decided (DESIGN.md C46), on type-checked HIR, nothing executes:
 K3-secret       every construction of AuthResponse / ResponseControlAttributes (the only values that carry the secret out of
                 authorise; AuthError has no payload) in the crate is inside Module::authorise, under the *true* outcome of
                 self.user_in_required_groups(<token>.groups), the secret being taken from that same token (derived Clone impls excepted);
 K4-predicate    user_in_required_groups is  <param>.iter().any(|g| F)  where every way to make F true contains
                 self.required_groups.contains(&g.uuid) or self.required_groups.contains(&g.spn)  (`all`, a negation, or a
                 disjunct without a membership test is a violation);
 K4-vlan         resolve_group_configs returns GroupConfig{vlan: V}: V starts at cfg.radius_default_vlan, is assigned only from
                 <c>.vlan with Some(c) = self.group_configs.get(&<loop item>.spn), inside one `for` loop directly over the
                 parameter (list order), with no break/return in the loop body (so the last matching group wins);
 K4-vlan-use     authorise derives tunnel_private_group_id from resolve_group_configs(<same token>.groups).
Not decided: the FFI layer (ffi.rs / glue.rs need the FreeRADIUS headers and are not compiled here), that the server-side
RadiusAuthToken lists the user's real groups, BTreeSet/BTreeMap semantics.
"""
from .lib.hir import *
from .lib import pathcond as pc
from .lib.ctx import relfile
from .lib.x_sinks import (real_root, result_leaves, sites_of, pat_forces, entailed, prov_binds, deep_tokens, local_id, cond_subst,
                          pat_bound_locals, param_locals, leaf_pat, leaf_scrut, loc)

META = dict(
    technique="static path-condition analysis (K3) of every site that builds the secret-carrying response, plus template extraction (K4) of the group predicate and the VLAN fold, "
              "over HIR of the unmodified logic.rs compiled through a shim crate root",
    level_text="All constructions of the response types that carry the RADIUS secret are enumerated from the compiler's HIR and shown to be "
               "dominated by user_in_required_groups(token.groups) == true; that predicate is extracted and must be any(uuid ∈ required ∨ spn ∈ required); the VLAN computation is "
               "extracted as a fold (default, overwritten only from a matched group mapping, in list order, no early exit). This covers every configuration and group list; the "
               "existing tests check one VLAN ordering and need a live server for the flow.",
    level_note="logic.rs is gated behind cfg(test)/feature \"extern-freeradius-module\" in the crate root, so it is analysed through a generated shim root (same source file, same "
               "dependencies, no cfg(test), no feature). Decides the guard on the secret, the predicate's shape and the VLAN fold. Not decided: the FFI glue (not compilable without "
               "FreeRADIUS headers), server-side token contents, std collection semantics. Trusted: rustc facts, the K3 engine, the shim construction, the rule tables.",
)

CR = "rlm_kanidm"
M = "rlm_kanidm::logic::Module::"
SPEC_SOME = ("v", "core::option::Option::Some", {})


def base_local(e):
    """Local at the root of a field/ref/method-receiver chain."""
    e = unwrap(e)
    for _ in range(8):
        if not isinstance(e, dict):
            return None
        if e.get("e") == "field":
            e = unwrap(e["x"])
        elif e.get("e") == "mcall" and short(callee_of(e), 1) in ("clone", "as_slice", "as_ref", "iter", "deref", "as_str"):
            e = unwrap(e["recv"])
        else:
            break
    return local_id(e)


def token_locals(e, prov, field):
    """Locals holding the RadiusAuthToken that `e` takes `field` from: base of `<t>.<field>` reads (through simple
    lets / destructuring, bounded)."""
    out = set()
    seen = set()
    frontier = [e]
    for _ in range(4):
        nxt = []
        for x in frontier:
            for n in walk(x):
                if n.get("e") == "field" and n.get("f") == field and "RadiusAuthToken" in n.get("xty", ""):
                    b = base_local(n["x"])
                    if b is not None:
                        out.add(b)
                if n.get("e") == "path" and "local" in n.get("res", {}):
                    l = n["res"]["local"]
                    if l in prov and l not in seen:
                        seen.add(l)
                        init = unwrap(prov[l])
                        if local_id(init) is not None:
                            out.add(local_id(init))        # alias / destructuring of a local
                        nxt.append(prov[l])
        frontier = nxt
    return out


def run(ctx):
    from .lib import x_rlmfacts
    ctx.explanation = ("K3: every construction of AuthResponse/ResponseControlAttributes lies in Module::authorise under "
                       "user_in_required_groups(token.groups)==true. K4: the predicate is any(uuid ∈ required ∨ spn ∈ required); the VLAN starts at the default and is "
                       "overwritten only from a matched group mapping in list order. logic.rs is analysed through a shim root (cfg-gated in the crate root).")
    F = ctx.facts
    src = "workspace facts"
    if F.fn(CR, M + "authorise") is None:
        try:
            F = Facts(x_rlmfacts.ensure_rlm_facts())
            src = "shim root (rules/lib/x_rlmfacts.py)"
        except Exception as e:     # fail closed
            ctx.violation("anchor", M + "authorise", "anchor-missing",
                          "rlm_kanidm::logic is not in the workspace facts (cfg-gated) and the shim build failed, so C46 cannot be decided: " + str(e)[-600:])
            return
    ctx.notes.append("rlm_kanidm::logic facts from: " + src)
    ctx.trusted_base.append("rules/lib/x_rlmfacts.py: shim crate root declaring the cfg-gated modules of rlm_kanidm (unmodified logic.rs / error.rs)")

    def fn(name):
        d = F.fn(CR, name)
        if d is None:
            ctx.violation("anchor", name, "anchor-missing", f"anchor function {name} not found in {CR} ({src}): the rule cannot be decided")
            from .lib.ctx import AnchorMissing
            raise AnchorMissing(name)
        ctx.analysed_fns.add(name)
        return d

    ctx.exhaustive = True      # every success / secret-carrying site of the crates is enumerated, not sampled
    auth = fn(M + "authorise")
    pred = fn(M + "user_in_required_groups")
    rgc = fn(M + "resolve_group_configs")

    # ---- K3-secret -----------------------------------------------------------------
    n_sinks = 0
    n_in_auth = 0
    for name in F.fn_names(CR):
        rec = F.fn(CR, name)
        if rec is None or "body" not in rec:
            continue
        root = real_root(rec) if name == auth["fn"] else rec["body"]
        sinks = []
        for n in walk(root):
            d = def_of(n)
            if n.get("e") == "struct" and d in ("rlm_kanidm::logic::AuthResponse", "rlm_kanidm::logic::ResponseControlAttributes"):
                sinks.append(n)
        if not sinks:
            continue
        if name != auth["fn"]:
            derived = name.startswith("rlm_kanidm::<logic::") and name.endswith("as core::clone::Clone>::clone")
            for n in sinks:
                n_sinks += 1
                what = short(def_of(n), 1) if n.get("e") == "struct" else "read:token.secret"
                ctx.check(derived, "K3-secret", name, "secret-site:" + what, "derived Clone of the response types",
                          f"{name} builds {what} outside Module::authorise: a response carrying the RADIUS secret can be produced without the required-group test",
                          **loc(rec, n))
            continue
        binds = pc.collect_binds(root)
        prov = prov_binds(root)
        for node, conds in sites_of(root, sinks):
            n_sinks += 1
            n_in_auth += 1
            lits = entailed(conds, binds)
            what = short(def_of(node), 1)
            guards = []
            for (p, leaf) in lits.values():
                if p and leaf[1] == "expr":
                    e = unwrap(leaf[2])
                    if e.get("e") == "mcall" and callee_of(e) == pred["fn"]:
                        guards.append(e)
            ok = bool(guards)
            detail = ""
            pw = [f["x"] for f in node["fields"] if f["f"] == "cleartext_password"] if def_of(node).endswith("ResponseControlAttributes") else []
            if ok and pw and def_of(unwrap(pw[0])) != "core::option::Option::None":
                # the groups tested belong to the token whose secret is released
                st = token_locals(pw[0], prov, "secret")
                gt = set()
                for g in guards:
                    for a in g.get("args", []):
                        gt |= token_locals(a, prov, "groups")
                ok = bool(st) and bool(st & gt)
                detail = " (groups and secret of the same token)"
            ctx.check(ok, "K3-secret", auth["fn"], "secret-site:" + what,
                      "under user_in_required_groups(token.groups) == true" + detail,
                      f"{what} in Module::authorise is reachable without the true outcome of self.user_in_required_groups(<that token>.groups) "
                      f"(guards {[g for g in pc.render(lits) if 'CALLSITE' not in g][:6]}): the RADIUS secret would be released to a user outside every required group",
                      **loc(auth, node))
            ctx.sample(f"{relfile(auth['file'])}:{node.get('line')} authorise :: {what} under user_in_required_groups(token.groups)")
    ctx.floor("K3-secret", "secret-carrying sites in Module::authorise", n_in_auth, 2)

    # ---- K4-predicate ----------------------------------------------------------------
    root = real_root(pred)
    self_locals = set(pat_bound_locals(pred["params"][0]["pat"])) if pred.get("params") else set()
    group_params = set(param_locals(pred, lambda t: "Group" in t))
    leaves = result_leaves(root, pc.collect_binds(root))
    ctx.floor("K4-predicate", "result expressions of user_in_required_groups", len(leaves), 1)
    for l in leaves:
        e = unwrap(l)
        shape_ok = (e.get("e") == "mcall" and ends(callee_of(e), "Iterator>::any", "Iterator::any") and e.get("args")
                    and unwrap(e["args"][0]).get("e") == "closure" and base_local(e["recv"]) in group_params)
        if not ctx.check(shape_ok, "K4-predicate", pred["fn"], "shape:" + (short(callee_of(e), 1) if e.get("e") in ("call", "mcall") else str(e.get("e"))),
                         "<user groups>.iter().any(|g| ..)",
                         f"user_in_required_groups returns `{ex_s(e)[:70]}`, not `<user_groups>.iter().any(|g| ..)` over its parameter "
                         "(e.g. `all` is true for a user without groups) — shape not understood, fail closed", **loc(pred, l)):
            continue
        clo = unwrap(e["args"][0])
        gl = set()
        for p in clo.get("params", []):
            gl |= set(pat_bound_locals(p))
        body = unwrap(clo["body"])
        cbinds = pc.collect_binds(body)
        tail = body
        while isinstance(tail, dict) and tail.get("e") == "blockexpr" and "tail" in tail["b"]:
            tail = unwrap(tail["b"]["tail"])
        f = cond_subst(tail, cbinds)

        def member_atom(leaf):
            if leaf[1] != "expr":
                return None
            x = unwrap(leaf[2])
            if x.get("e") == "mcall" and ends(callee_of(x), "BTreeSet::<T, A>::contains", "HashSet::<T, S>::contains") and x.get("args"):
                r = unwrap(x["recv"])
                a = unwrap(x["args"][0])
                if r.get("e") == "field" and r.get("f") == "required_groups" and local_id(r["x"]) in self_locals and \
                        a.get("e") == "field" and a.get("f") in ("uuid", "spn") and local_id(a["x"]) in gl:
                    return a["f"]
            return None
        dnf = pc._dnf(f, True)
        bad = []
        atoms = set()
        for conj in dnf:
            ms = [member_atom(l2) for (p, l2) in conj if p]
            ms = [m for m in ms if m]
            atoms |= set(ms)
            if not ms:
                bad.append(" ∧ ".join(("" if p else "¬") + pc.leaf_key(l2)[:60] for (p, l2) in conj) or "true")
        ctx.check(bool(dnf) and not bad, "K4-predicate", pred["fn"], "any:" + ("|".join(sorted(atoms)) if not bad else "disjunct-without-membership"),
                  f"any(g.{' ∈ required ∨ g.'.join(sorted(atoms))} ∈ required)",
                  f"the closure of user_in_required_groups can be true without `self.required_groups.contains(&g.uuid | &g.spn)`: disjuncts {bad[:3]} — "
                  "a user outside the required groups would satisfy the predicate", **loc(pred, l))
        ctx.check({"uuid", "spn"} <= atoms or bool(bad), "K4-predicate", pred["fn"], "atoms:uuid+spn",
                  "membership by uuid and by spn", f"only {sorted(atoms)} of (uuid, spn) are tested: members configured by the other identifier are locked out "
                  "(property: 'by UUID or SPN')", **loc(pred, l))
        ctx.sample(f"{relfile(pred['file'])}:{l.get('line')} user_in_required_groups :: any({' ∨ '.join(sorted(atoms))} ∈ required_groups)")

    # ---- K4-vlan ------------------------------------------------------------------------
    root = real_root(rgc)
    self_locals = set(pat_bound_locals(rgc["params"][0]["pat"])) if rgc.get("params") else set()
    group_params = set(param_locals(rgc, lambda t: "Group" in t))
    outs = [unwrap(l) for l in result_leaves(root, pc.collect_binds(root))]
    vl = None
    ok_shape = bool(outs)
    for o in outs:
        if not (o.get("e") == "struct" and def_of(o) == "rlm_kanidm::logic::GroupConfig"):
            ok_shape = False
            continue
        for fld in o["fields"]:
            if fld["f"] == "vlan":
                lid = local_id(fld["x"])
                if lid is None or (vl is not None and vl != lid):
                    ok_shape = False
                vl = lid
    if ctx.check(ok_shape and vl is not None, "K4-vlan", rgc["fn"], "shape:GroupConfig{vlan:<local>}",
                 "result is GroupConfig{vlan: <accumulator>}", "resolve_group_configs no longer returns GroupConfig{vlan: <local accumulator>, ..} (shape not understood, fail closed)",
                 **loc(rgc)):
        init = None
        for n in walk(root):
            if n.get("s") == "let" and "init" in n and n["pat"].get("p") == "bind" and n["pat"].get("local") == vl:
                init = n["init"]
        i0 = unwrap(init) if init else {}
        ctx.check(i0.get("e") == "field" and i0.get("f") == "radius_default_vlan", "K4-vlan", rgc["fn"], "init:radius_default_vlan",
                  "accumulator starts at cfg.radius_default_vlan",
                  f"the VLAN accumulator starts at `{ex_s(i0)[:50]}` instead of cfg.radius_default_vlan", **loc(rgc, i0 if i0 else None))
        assigns = [n for n in walk(root) if n.get("e") in ("assign", "assignop") and local_id(n["l"]) == vl]
        ctx.floor("K4-vlan", "assignments to the VLAN accumulator", len(assigns), 1)
        # the for loop over the parameter
        loops = [n for n in walk(root) if n.get("e") == "match" and n.get("src") == "ForLoopDesugar" and
                 unwrap(n["scrut"]).get("e") == "call" and ends(callee_of(unwrap(n["scrut"])), "IntoIterator::into_iter")]
        binds = pc.collect_binds(root)
        for node, conds in sites_of(root, assigns):
            lits = entailed(conds, binds)
            r = unwrap(node["r"])
            src_local = local_id(r.get("x")) if r.get("e") == "field" and r.get("f") == "vlan" else None
            item = None
            matched = False
            for (p, leaf) in lits.values():
                if p and leaf[1] in ("let", "arm") and pat_forces(leaf_pat(leaf), SPEC_SOME) and src_local in pat_bound_locals(leaf_pat(leaf)):
                    g = unwrap(leaf_scrut(leaf))
                    if g.get("e") == "mcall" and ends(callee_of(g), "BTreeMap::<K, V, A>::get", "HashMap::<K, V, S>::get") and g.get("args"):
                        rr = unwrap(g["recv"])
                        a = unwrap(g["args"][0])
                        if rr.get("e") == "field" and rr.get("f") == "group_configs" and local_id(rr["x"]) in self_locals and \
                                a.get("e") == "field" and a.get("f") in ("spn", "uuid"):
                            matched = True
                            item = local_id(a["x"])
            in_loop = None
            for lp in loops:
                it = unwrap(lp["scrut"])["args"][0]
                direct = base_local(it) in group_params
                for (p, leaf) in lits.values():
                    if p and leaf[1] == "arm" and item is not None and item in pat_bound_locals(leaf_pat(leaf)) and \
                            any(n is node for n in walk(lp)):
                        in_loop = (lp, direct)
            exits = []
            if in_loop:
                body = in_loop[0]["arms"][0]["body"]
                exits = [n for n in walk(body, into_closures=False) if n.get("e") in ("break", "ret", "continue") and not n.get("exp")]
            problems = []
            if node.get("e") != "assign":
                problems.append("compound assignment")
            if not matched:
                problems.append("value is not <c>.vlan with Some(c) = self.group_configs.get(&<item>.spn)")
            if not in_loop:
                problems.append("not inside a `for` loop whose item is the group looked up")
            elif not in_loop[1]:
                problems.append("the loop does not iterate directly over the user_groups parameter (order may differ from the list)")
            if exits:
                problems.append("break/continue/return inside the loop body (the last match would no longer win)")
            ctx.check(not problems, "K4-vlan", rgc["fn"], "assign:vlan<-matched-group" if not problems else "assign:vlan:" + ("unmatched" if not matched else "order"),
                      "vlan overwritten only from a matched group mapping, in list order",
                      f"assignment `{ex_s(node['l'])} = {ex_s(node['r'])[:40]}`: {problems} — the VLAN is no longer 'last mapped group of the user, else default'",
                      **loc(rgc, node))
            ctx.sample(f"{relfile(rgc['file'])}:{node.get('line')} resolve_group_configs :: vlan <- group_configs.get(item.spn).vlan inside for over parameter")

    # ---- K4-vlan-use -----------------------------------------------------------------------
    root = real_root(auth)
    prov = prov_binds(root)
    replies = [n for n in walk(root) if n.get("e") == "struct" and def_of(n) == "rlm_kanidm::logic::ResponseReplyAttributes"]
    ctx.floor("K4-vlan-use", "constructions of ResponseReplyAttributes in authorise", len(replies), 1)
    rcalls = [c for c in all_calls(root) if callee_of(c) == rgc["fn"]]
    for n in replies:
        fx = [f["x"] for f in n["fields"] if f["f"] == "tunnel_private_group_id"]
        toks = deep_tokens(fx[0], prov, 4) if fx else set()
        from_token = any(token_locals(a, prov, "groups") for c in rcalls for a in c.get("args", []))
        ctx.check(has_token(toks, "call", rgc["fn"]) and from_token, "K4-vlan-use", auth["fn"],
                  "tunnel_private_group_id<-resolve_group_configs",
                  "VLAN reply attribute derives from resolve_group_configs(token.groups)",
                  f"tunnel_private_group_id (`{ex_s(fx[0])[:40] if fx else '?'}`) does not derive from self.resolve_group_configs(<token>.groups)", **loc(auth, n))
