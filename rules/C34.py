"""C34 Revoked keys never verify — clause: status decision tables and variant maps of the sibling key-object types (K4/K5/K1).

The sibling types are *discovered* from the fields `Option<KeyObjectInternalX>` of `KeyObjectInternal`; a sixth type
is analysed automatically and must follow the pattern. For every sibling T (status enum E_T found through T::load):

 K4-verify    T::verify / T::decipher: the function result is the `match` over the looked-up key's E_T status;
              the Revoked arm yields `Err` on every path, does not touch the token and calls nothing on variant fields;
              the Valid and Retained arms call a method on the verifier/cipher bound by the arm with the token.
 K4-dispatch  KeyObjectInternal::{jws_verify, jwe_decrypt} only delegate to T::verify / T::decipher (no Ok of their own);
              load_key_object / as_valuesets / revoke_keys reach every sibling's load / to_key_iter / revoke,
              and load_key_object passes the stored status through unchanged.
 K5-load      T::load: KeyStatus::V -> E_T::V for every V (identity on names); the Revoked arm never inserts into `active`.
 K5-store     T::to_key_iter: E_T::V -> KeyStatus::V for every V.
 K5-db        ValueSetKeyInternal::{from_dbv_iter, to_vec_dbvs}: DbValueKeyStatus <-> KeyStatus identity on names.
 K4-revoke    T::revoke: assigns E_T::Revoked to the key's status and removes the key's valid_from from `active`
              on every path that performs the assignment.
 K4-signer    T::get_valid_signer / get_valid_cipher read only `self.active`, through `range((Unbounded, Included(now)))`
              + `next_back()` (newest key whose validity has started).
 K1-active    `active` of a sibling is touched only by its get_valid_* / new_active / import / load / revoke;
              key material stored in a Revoked variant is bound only by T::revoke.
 K8-order     KeyStatus derives PartialOrd/Ord with Revoked declared last (C11's merge order).
Not decided: the cryptography itself, the entry-level replication merge (C11), kid collisions across key objects.
"""
import re
from .lib.hir import *
from .lib import pathcond as pc
from .lib.x_g7util import *

META = dict(
    technique="static decision-table / variant-map agreement over the sibling key-object types (type-checked HIR + item facts)",
    level_text="Exhaustive structural check over every key-object type of the internal key provider (discovered from the struct's fields, so a new "
               "type is included): a revoked key's arm of verify/decipher always returns Err without touching the token, stored Revoked is loaded "
               "as Revoked and written back as Revoked through both storage layers, revoke removes the key from the signing set, and signing "
               "selects only from that set up to `now`. Tests script one rotation and one revocation per key type.",
    level_note="Decides the structural clause per sibling type (status decision tables, K5 variant maps, dispatch completeness, who-touches-`active`). "
               "Not decided: cryptographic soundness of compact_jwt, replication merge of key value sets (C11), kid collisions. "
               "Trusted: rustc name resolution / type check, the rule tables.",
)

LIB = "kanidmd_lib"
KI = "kanidmd_lib::server::keys::internal::"
KEYSTATUS = "kanidmd_lib::value::KeyStatus"
DBSTATUS = "kanidmd_lib::be::dbvalue::DbValueKeyStatus"
STATUS_NAMES = ["Valid", "Retained", "Revoked"]
ACTIVE_ALLOWED = {"get_valid_signer", "get_valid_cipher", "new_active", "import", "load", "revoke"}


def qual(ty):
    """crate-relative type string of item facts -> crate-qualified def-path."""
    return ty if ty.startswith("kanidmd_lib::") else "kanidmd_lib::" + ty


def enum_variants(F, path):
    it = F.item(LIB, "enum", path)
    return [v["v"] for v in it["variants"]] if it else None


def map_table(ctx, rule, fnrec, m, src_enum, src_variants, dst_enum, inst_prefix):
    """Check that match m maps src_enum::V -> dst_enum::V (identity on names) for every V."""
    tab = arm_table(m, src_enum, src_variants)
    good = True
    for v in src_variants:
        arms = tab.get(v, [])
        outs = sorted({o for a in arms for o in ctor_variants(a["body"], dst_enum)})
        ok = len(arms) >= 1 and outs == [v]
        line = arms[0]["body"].get("line") if arms else m.get("line")
        ctx.check(ok, rule, fnrec["fn"], f"{inst_prefix}:{v}",
                  f"{short(src_enum,1)}::{v} -> {short(dst_enum,1)}::{outs}",
                  f"{short(src_enum,1)}::{v} is mapped to {[short(dst_enum,1)+'::'+o for o in outs] or 'nothing recognised'} instead of exactly "
                  f"{short(dst_enum,1)}::{v} — a key stored/loaded in state {v} changes state across a reload, so a Revoked key can come back as usable (or a usable key is lost)",
                  file=fnrec["file"], line=line)
        good = good and ok
    return good


def run(ctx):
    _run_main(ctx)
    key_material_refreshed_everywhere(ctx)


def _run_main(ctx):
    F = ctx.facts
    ctx.explanation = ("Per sibling key-object type (discovered from KeyObjectInternal's fields): verify/decipher decision table (Revoked -> Err, "
                       "Valid|Retained -> verifier call), load / to_key_iter / DbValueKeyStatus variant maps are the identity on status names, revoke "
                       "sets Revoked and removes the key from `active`, get_valid_signer/cipher read only `active` up to now (newest), dispatchers reach "
                       "every sibling, `active` and revoked key material are touched only by the allowed methods, KeyStatus orders Revoked last.")

    # ---- K8-order: KeyStatus item facts -------------------------------------------------------------
    ks = F.item(LIB, "enum", KEYSTATUS)
    if not ctx.check(ks is not None, "K8-order", KEYSTATUS, "enum-found", "KeyStatus found", "enum value::KeyStatus not found (anchor missing)"):
        return
    ks_variants = [v["v"] for v in ks["variants"]]
    ctx.check(ks_variants and ks_variants[-1] == "Revoked" and set(STATUS_NAMES) <= set(ks_variants), "K8-order", KEYSTATUS, "revoked-declared-last",
              f"variants in declaration order: {ks_variants}",
              f"KeyStatus variants are declared as {ks_variants}; the derived Ord makes the last variant the greatest and the replication merge keeps the greater "
              f"status, so Revoked must be declared last or a merge can resurrect a revoked key", file=ks["file"], line=ks["line"])
    for tr in ("core::cmp::Ord", "core::cmp::PartialOrd"):
        impls = [i for i in F.items(LIB) if i["item"] == "impl" and i.get("self_ty") == "value::KeyStatus" and i.get("trait") == tr]
        ctx.check(len(impls) == 1 and impls[0].get("derived") is True, "K8-order", KEYSTATUS, f"derived:{tr.split('::')[-1]}",
                  f"{tr} is derived", f"{tr} for KeyStatus is {'hand-written' if impls else 'missing'}: the order is no longer the declaration order the rule relies on",
                  file=ks["file"], line=ks["line"])

    # ---- discover the siblings ----------------------------------------------------------------------
    koi = F.item(LIB, "struct", KI + "KeyObjectInternal")
    if not ctx.check(koi is not None, "anchor", KI + "KeyObjectInternal", "struct-found", "", "struct KeyObjectInternal not found"):
        return
    sibs = {}     # type def-path -> field name
    for fld in koi["variants"][0]["fields"]:
        mm = re.match(r"core::option::Option<(server::keys::internal::\w+)>$", fld["ty"])
        if mm:
            sibs[qual(mm.group(1))] = fld["f"]
    ctx.floor("siblings", "key-object sibling types (Option<..> fields of KeyObjectInternal)", len(sibs), 5)
    # any other struct in the module that looks like a key object (has `active` and `all`) must be a field: fail closed on an orphan type
    for it in F.items(LIB):
        if it["item"] == "struct" and it["name"].startswith(KI):
            fs = {f["f"] for f in it["variants"][0]["fields"]}
            if {"active", "all"} <= fs:
                ctx.check(it["name"] in sibs, "siblings", it["name"], "registered-in-KeyObjectInternal",
                          "key-object type is a field of KeyObjectInternal",
                          f"{short(it['name'],1)} has `active`/`all` key maps but is not an Option<..> field of KeyObjectInternal: it is outside revoke_keys/load dispatch and outside this rule",
                          file=it["file"], line=it["line"])

    status_enum = {}      # T -> E_T def-path
    n_verify = 0
    accept_callees = set()

    for T in sorted(sibs):
        tn = short(T, 1)
        # ---- K5-load ------------------------------------------------------------------------------
        load = ctx.fn_opt(LIB, T + "::load")
        if not ctx.check(load is not None, "K5-load", T + "::load", "exists", "", f"sibling {tn} has no `load`: stored keys of this type are not reloaded through a checked status map"):
            continue
        ms = find_matches(load["body"], "KeyStatus")
        if not ctx.check(len(ms) == 1, "K5-load", load["fn"], "table-found", "status table extracted",
                         f"{tn}::load has {len(ms)} `match` over KeyStatus (expected one): shape not understood", file=load["file"], line=load["line"]):
            continue
        m = ms[0]
        # E_T: the enum (in this module) whose variants the arms construct
        enums = set()
        for a in m["arms"]:
            for n in uwalk(a["body"]):
                if n.get("e") in ("path", "call", "struct"):
                    d = def_of(n)
                    if d.startswith(KI) and d.count("::") == KI.count("::") + 1 and F.item(LIB, "enum", d.rsplit("::", 1)[0]):
                        enums.add(d.rsplit("::", 1)[0])
        if not ctx.check(len(enums) == 1, "K5-load", load["fn"], "status-enum", f"status enum {sorted(enums)}",
                         f"{tn}::load constructs variants of {sorted(enums)}; expected exactly one internal status enum", file=load["file"], line=m.get("line")):
            continue
        E = enums.pop()
        status_enum[T] = E
        ev = enum_variants(F, E)
        ctx.check(ev is not None and set(ev) == set(ks_variants), "K5-load", E, "same-status-names",
                  f"{short(E,1)} variants {ev}", f"{short(E,1)} has variants {ev} but KeyStatus has {ks_variants}: the storage map cannot be the identity on names")
        map_table(ctx, "K5-load", load, m, KEYSTATUS, ks_variants, E, "load")
        # Revoked arm must not enter the signing set
        tab = arm_table(m, KEYSTATUS, ks_variants)
        self_l = param_local(load, 0)
        for a in tab.get("Revoked", []):
            touches = [n for n in uwalk(a["body"]) if n.get("e") == "field" and n["f"] == "active" and local_of(n["x"]) == self_l]
            ctx.check(not touches, "K5-load", load["fn"], "revoked-not-active", "Revoked arm does not touch `active`",
                      f"{tn}::load touches `self.active` in the KeyStatus::Revoked arm: a revoked key re-enters the signing set on reload",
                      file=load["file"], line=a["body"].get("line"))
        ctx.sample(f"{tn}::load: KeyStatus::V -> {short(E,1)}::V for {ks_variants}")

        # ---- K5-store -----------------------------------------------------------------------------
        store = ctx.fn_opt(LIB, T + "::to_key_iter")
        if ctx.check(store is not None, "K5-store", T + "::to_key_iter", "exists", "", f"sibling {tn} has no `to_key_iter`: its keys are not written back through a checked status map"):
            ms = find_matches(store["body"], short(E, 1))
            if ctx.check(len(ms) == 1, "K5-store", store["fn"], "table-found", "status table extracted",
                         f"{tn}::to_key_iter has {len(ms)} `match` over {short(E,1)} (expected one): shape not understood", file=store["file"], line=store["line"]):
                map_table(ctx, "K5-store", store, ms[0], E, ev or [], KEYSTATUS, "store")

        # ---- K4-revoke ----------------------------------------------------------------------------
        rv = ctx.fn_opt(LIB, T + "::revoke")
        if ctx.check(rv is not None, "K4-revoke", T + "::revoke", "exists", "", f"sibling {tn} has no `revoke`"):
            check_revoke(ctx, rv, T, E)

        # ---- K4-signer ----------------------------------------------------------------------------
        gv = [n for n in (T + "::get_valid_signer", T + "::get_valid_cipher") if F.fn(LIB, n)]
        if ctx.check(len(gv) >= 1, "K4-signer", T, "exists", "", f"sibling {tn} has neither get_valid_signer nor get_valid_cipher: signing-key selection is not the checked one"):
            for g in gv:
                check_signer(ctx, ctx.fn(LIB, g), T)

        # ---- K4-verify ----------------------------------------------------------------------------
        for meth in ("verify", "decipher"):
            vf = ctx.fn_opt(LIB, T + "::" + meth)
            if vf is None:
                continue
            n_verify += 1
            check_verify(ctx, vf, T, E, ev or [], accept_callees)

        # ---- K1-active ----------------------------------------------------------------------------
        for name in F.find_fns(LIB, "^" + re.escape(T) + r"::\w+$"):
            f = ctx.fn(LIB, name)
            sl = param_local(f, 0)
            if sl is None:
                continue
            if "active" in self_fields(f["body"], sl):
                meth = name.rsplit("::", 1)[1]
                ctx.check(meth in ACTIVE_ALLOWED, "K1-active", name, "touches-active",
                          f"{meth} is an allowed user of `active`",
                          f"{tn}::{meth} reads or writes `self.active` directly; only {sorted(ACTIVE_ALLOWED)} may: signing keys must be selected by get_valid_* "
                          f"(up to now, newest) and the set is maintained by load/new_active/import/revoke", file=f["file"], line=f["line"])

    ctx.floor("K4-verify", "verify/decipher methods over the siblings", n_verify, 4)

    # ---- K1-revoked-material: who binds fields of a Revoked variant -------------------------------------
    enums = set(status_enum.values())
    n_bind = 0
    derived = {(i.get("self_ty"), i.get("trait")) for i in F.items(LIB) if i["item"] == "impl" and i.get("derived")}
    for name in F.fns_mentioning(LIB, "Status::Revoked"):
        dm = re.match(r"kanidmd_lib::<(.+) as (.+)>::\w+$", name)
        if dm and (dm.group(1), dm.group(2)) in derived:
            continue      # #[derive(Clone)] etc.: structural copy, not a use
        f = F.fn(LIB, name)
        if f is None:
            continue
        for n in walk(f["body"]):
            if n.get("p") == "struct" and n["path"].get("def", "").rsplit("::", 1)[0] in enums and n["path"]["def"].endswith("::Revoked"):
                E = n["path"]["def"].rsplit("::", 1)[0]
                it = F.item(LIB, "enum", E)
                ftypes = {fl["f"]: fl["ty"] for v in it["variants"] if v["v"] == "Revoked" for fl in v["fields"]}
                for fl in n["fields"]:
                    if not pat_binds(fl["pat"]):
                        continue
                    ty = ftypes.get(fl["f"], "?")
                    if ty in ("alloc::vec::Vec<u8>",):
                        continue      # stored public bytes, not usable to verify without an explicit decode
                    n_bind += 1
                    meth = name.rsplit("::", 1)[1]
                    ctx.check(meth == "revoke", "K1-revoked-material", name, f"binds:{short(E,1)}::Revoked.{fl['f']}",
                              "bound only to carry the material over a repeated revoke",
                              f"{short(name,2)} binds `{fl['f']}` ({ty.split('::')[-1]}) of {short(E,1)}::Revoked: key material of a revoked key may only be read by `revoke` "
                              f"(to re-encode it), never used to verify or published", file=f["file"], line=f["line"])
    # ---- K4-dispatch -----------------------------------------------------------------------------------
    pre = "kanidmd_lib::<server::keys::internal::KeyObjectInternal as server::keys::object::KeyObjectT>::"
    for disp, meth in (("jws_verify", "verify"), ("jwe_decrypt", "decipher")):
        f = ctx.fn(LIB, pre + disp)
        internal = sorted({callee_of(c) for c in ucalls(f["body"]) if callee_of(c).startswith(KI)})
        allowed = {T + "::" + meth for T in sibs}
        ctx.check(internal and set(internal) <= allowed, "K4-dispatch", f["fn"], "delegates-only",
                  f"delegates to {[short(x) for x in internal]}",
                  f"{disp} calls {[short(x) for x in internal if x not in allowed] or 'no sibling method'}; it must only delegate to the siblings' `{meth}` (the status table lives there)",
                  file=f["file"], line=f["line"])
        oks = uconstructs(f["body"], "core::result::Result::Ok")
        ctx.check(not oks, "K4-dispatch", f["fn"], "no-own-ok", "constructs no Ok itself",
                  f"{disp} constructs an Ok(..) itself (line {oks[0].get('line') if oks else '?'}): a token could be accepted without passing a sibling's status table",
                  file=f["file"], line=oks[0].get("line") if oks else f["line"])
        missing = [short(T, 1) for T in sibs if F.fn(LIB, T + "::" + meth) and T + "::" + meth not in internal]
        ctx.check(not missing, "K4-dispatch", f["fn"], "reaches-every-sibling", "every sibling with this method is dispatched to",
                  f"{disp} does not dispatch to {missing}", file=f["file"], line=f["line"])
    for disp_name, meth, rule_inst in ((pre + "revoke_keys", "revoke", "revoke_keys"), (pre + "as_valuesets", "to_key_iter", "as_valuesets"),
                                       (KI + "KeyProviderInternal::load_key_object", "load", "load_key_object")):
        f = ctx.fn(LIB, disp_name)
        called = {callee_of(c) for c in ucalls(f["body"])}
        for T in sorted(sibs):
            ctx.check(T + "::" + meth in called, "K4-dispatch", f["fn"], f"{rule_inst}:{short(T,1)}",
                      f"{short(T,1)}::{meth} reached",
                      f"{rule_inst} never calls {short(T,1)}::{meth}: keys of that type are not {'revoked' if meth=='revoke' else 'written back' if meth=='to_key_iter' else 'reloaded'} "
                      f"with the rest of the key object", file=f["file"], line=f["line"])
        if meth == "load":
            for c in ucalls(f["body"]):
                cal = callee_of(c)
                if cal.startswith(KI) and cal.endswith("::load") and cal.rsplit("::", 1)[0] in sibs and len(c["args"]) >= 2:
                    a = c["args"][1]
                    loc = local_of(a)
                    fb = field_binding_of(f["body"], loc) if loc is not None else None
                    ok = fb is not None and fb[1] == "status" and fb[0].endswith("KeyInternalData") and not ctor_variants(a, KEYSTATUS)
                    ctx.check(ok, "K4-dispatch", f["fn"], f"status-passthrough:{short(cal.rsplit('::',1)[0],1)}",
                              "stored status passed through unchanged",
                              f"load_key_object passes `{ex_s(a)}` as the status to {short(cal)}; expected the `status` field of the stored KeyInternalData unchanged "
                              f"(anything else can turn a stored Revoked into a usable key)", file=f["file"], line=c.get("line"))

    # ---- K5-db ----------------------------------------------------------------------------------------
    rd = ctx.fn1(LIB, r"^kanidmd_lib::valueset::key_internal::ValueSetKeyInternal::from_dbv_iter$")
    wr = ctx.fn1(LIB, r"^kanidmd_lib::valueset::key_internal::ValueSetKeyInternal::to_vec_dbvs$")
    dbv = enum_variants(F, DBSTATUS)
    if ctx.check(dbv is not None and set(dbv) == set(ks_variants), "K5-db", DBSTATUS, "same-status-names", f"DbValueKeyStatus variants {dbv}",
                 f"DbValueKeyStatus has variants {dbv}, KeyStatus has {ks_variants}"):
        ms = find_matches(rd["body"], "DbValueKeyStatus")
        if ctx.check(len(ms) == 1, "K5-db", rd["fn"], "table-found", "", f"from_dbv_iter has {len(ms)} match over DbValueKeyStatus: shape not understood", file=rd["file"], line=rd["line"]):
            map_table(ctx, "K5-db", rd, ms[0], DBSTATUS, dbv, KEYSTATUS, "read")
        ms = find_matches(wr["body"], "KeyStatus")
        ms = [m for m in ms if m.get("scrut_ty", "").replace("&", "").strip().endswith("value::KeyStatus")]
        if ctx.check(len(ms) == 1, "K5-db", wr["fn"], "table-found", "", f"to_vec_dbvs has {len(ms)} match over KeyStatus: shape not understood", file=wr["file"], line=wr["line"]):
            map_table(ctx, "K5-db", wr, ms[0], KEYSTATUS, ks_variants, DBSTATUS, "write")
    ctx.exhaustive = True


# -------------------------------------------------------------------------------------------------------

def check_verify(ctx, vf, T, E, ev, accept_callees):
    tn = short(T, 1)
    meth = vf["fn"].rsplit("::", 1)[1]
    rule = "K4-verify"
    tok = param_local(vf, 1)
    ms = find_matches(vf["body"], short(E, 1))
    if not ctx.check(len(ms) == 1 and tok is not None, rule, vf["fn"], "table-found", "status table extracted",
                     f"{tn}::{meth} has {len(ms)} `match` over {short(E,1)} (expected one) / token parameter not a plain binding: shape not understood",
                     file=vf["file"], line=vf["line"]):
        return
    m = ms[0]
    # the function's result is that match (directly or through a local bound to it)
    binds = pc.collect_binds(vf["body"])
    tails = tail_values(vf["body"])
    body_is_match = False
    tl = unwrap(vf["body"])
    while isinstance(tl, dict) and tl.get("e") == "blockexpr":
        b = tl["b"]
        tl = unwrap(b["tail"]) if "tail" in b else None
    if tl is m:
        body_is_match = True
    elif isinstance(tl, dict) and local_of(tl) in binds and unwrap(binds[local_of(tl)]) is m:
        body_is_match = True
    ctx.check(body_is_match, rule, vf["fn"], "result-is-status-table", "function result is the status match",
              f"the result of {tn}::{meth} is not the `match` over the key's status (tail is `{ex_s(tl)[:80] if tl else 'none'}`): the status table no longer decides the outcome",
              file=vf["file"], line=(tl or vf).get("line"))
    # scrutinee is the status field of something
    sc = unwrap(m["scrut"])
    ctx.check(sc.get("e") == "field" and sc.get("f") == "status", rule, vf["fn"], "scrutinee-is-status", f"match on `{ex_s(sc)}`",
              f"status table scrutinee is `{ex_s(sc)}`, expected the `.status` of the looked-up key", file=vf["file"], line=m.get("line"))
    # no Ok outside the accept arms
    tab = arm_table(m, E, ev)
    accept_nodes = set()
    for v in ("Valid", "Retained"):
        for a in tab.get(v, []):
            for n in walk(a["body"]):
                accept_nodes.add(id(n))
    stray = [n for n in uconstructs(vf["body"], "core::result::Result::Ok") if id(n) not in accept_nodes]
    ctx.check(not stray, rule, vf["fn"], "no-ok-outside-accept-arms", "no Ok(..) outside Valid|Retained",
              f"{tn}::{meth} constructs Ok(..) outside the Valid|Retained arms (line {stray[0].get('line') if stray else '?'})", file=vf["file"],
              line=stray[0].get("line") if stray else None)
    # Revoked arm(s)
    ra = tab.get("Revoked", [])
    if ctx.check(len(ra) >= 1, rule, vf["fn"], "arm:Revoked:present", "", f"no arm covers {short(E,1)}::Revoked", file=vf["file"], line=m.get("line")):
        for a in ra:
            also = [v for v in ev if v != "Revoked" and a in tab.get(v, [])]
            bound = {l for (l, _) in pat_binds(a["pat"])}
            errs = always_err(a["body"])
            uses_tok = any(mentions_local(c, tok) for c in ucalls(a["body"]))
            uses_bound = [c for c in ucalls(a["body"]) if any(mentions_local(c, l) for l in bound)]
            ok = errs and not uses_tok and not uses_bound and not also and "guard" not in a
            why = []
            if also:
                why.append(f"the arm also covers {also}")
            if "guard" in a:
                why.append("the arm is guarded (a revoked key can fall through to another arm)")
            if not errs:
                why.append("its value is not `Err(..)` on every path: " + "; ".join(ex_s(v)[:70] for v in tail_values(a["body"]) if not is_err_value(v)))
            if uses_tok:
                why.append("it passes the token to a call")
            if uses_bound:
                why.append("it calls `" + ex_s(uses_bound[0])[:70] + "` on material of the revoked key")
            ctx.check(ok, rule, vf["fn"], "arm:Revoked", "Revoked -> Err, token untouched",
                      f"{tn}::{meth}: the {short(E,1)}::Revoked arm must reject unconditionally but " + "; ".join(why) +
                      " — a token made with a revoked key can be accepted", file=vf["file"], line=a["body"].get("line"))
    for v in ("Valid", "Retained"):
        arms = tab.get(v, [])
        good = False
        detail = ""
        for a in arms:
            bound = {l for (l, _) in pat_binds(a["pat"])}
            for c in ucalls(a["body"]):
                if c.get("e") == "mcall" and local_of(c["recv"]) in bound and any(local_of(x) == tok for x in c["args"]):
                    good = True
                    detail = short(callee_of(c))
                    accept_callees.add(callee_of(c))
        ctx.check(good, rule, vf["fn"], f"arm:{v}", f"{v} -> {detail}(token)",
                  f"{tn}::{meth}: the {short(E,1)}::{v} arm does not call the verifier/cipher bound by the arm with the token: tokens of non-revoked "
                  f"({v}) keys are no longer verified by their own key (rotation would invalidate them, or they are accepted unverified)",
                  file=vf["file"], line=arms[0]["body"].get("line") if arms else m.get("line"))
    ctx.sample(f"{tn}::{meth}: Valid|Retained -> verifier call, Revoked -> Err")


def check_revoke(ctx, rv, T, E):
    tn = short(T, 1)
    rule = "K4-revoke"
    self_l = param_local(rv, 0)

    def is_assign(n):
        if n.get("e") != "assign":
            return False
        l = unwrap(n["l"])
        return l.get("e") == "field" and l.get("f") == "status" and ctor_variants(n["r"], E) == ["Revoked"]

    def is_remove(n):
        if n.get("e") != "mcall" or not is_call_to(n, "BTreeMap::<K, V, A>::remove", "BTreeMap::<K, V, A>::retain", "BTreeMap::<K, V, A>::remove_entry"):
            return False
        r = unwrap(n["recv"])
        return r.get("e") == "field" and r.get("f") == "active" and local_of(r["x"]) == self_l

    sites = pc.site_conditions(rv["body"], lambda n: is_assign(n) or is_remove(n))
    assigns = [(s, c) for (s, c) in sites if is_assign(s)]
    removes = [(s, c) for (s, c) in sites if is_remove(s)]
    if not ctx.check(len(assigns) >= 1, rule, rv["fn"], "sets-revoked", "status := Revoked",
                     f"{tn}::revoke never assigns {short(E,1)}::Revoked to the key's `.status`: the key keeps verifying after revocation", file=rv["file"], line=rv["line"]):
        return
    if not ctx.check(len(removes) >= 1, rule, rv["fn"], "removes-from-active", "active.remove(valid_from)",
                     f"{tn}::revoke never removes the key from `self.active`: a revoked key stays selectable by get_valid_signer/cipher and keeps signing",
                     file=rv["file"], line=rv["line"]):
        return
    # every path performing the assignment also performs the removal: facts(remove) ⊆ facts(assign) for some remove
    for (s, ac) in assigns:
        aset = {f_str(f) for f in ac}
        ok = any({f_str(f) for f in rc} <= aset for (_, rc) in removes)
        extra = []
        if not ok:
            best = min(removes, key=lambda r: len({f_str(f) for f in r[1]} - aset))
            extra = sorted({f_str(f) for f in best[1]} - aset)
        ctx.check(ok, rule, rv["fn"], "remove-on-every-revoking-path", "removal is unconditional once the status is set",
                  f"{tn}::revoke removes the key from `active` only under extra conditions {extra[:3]} that do not guard the `status = Revoked` assignment: "
                  f"some revocations leave the key in the signing set", file=rv["file"], line=s.get("line"))
    # the key removed is the revoked key's valid_from
    binds = pc.collect_binds(rv["body"])
    for (s, _) in removes:
        if not is_call_to(s, "BTreeMap::<K, V, A>::remove", "BTreeMap::<K, V, A>::remove_entry"):
            continue
        a = s["args"][0] if s["args"] else None
        src = unwrap(a) if a else None
        loc = local_of(a) if a else None
        if loc is not None and loc in binds:
            src = unwrap(binds[loc])
        ok = isinstance(src, dict) and src.get("e") == "field" and src.get("f") == "valid_from"
        ctx.check(ok, rule, rv["fn"], "removes-own-valid_from", "active.remove(&key.valid_from)",
                  f"{tn}::revoke removes `{ex_s(a) if a else '?'}` from `active`, expected the revoked key's own `valid_from` (the map's key)", file=rv["file"], line=s.get("line"))
    ctx.sample(f"{tn}::revoke: status := Revoked ; active.remove(valid_from)")


def check_signer(ctx, g, T):
    tn = short(T, 1)
    rule = "K4-signer"
    gm = g["fn"].rsplit("::", 1)[1]
    self_l = param_local(g, 0)
    time_l = param_local(g, 1)
    fields = self_fields(g["body"], self_l)
    ctx.check(fields == {"active"}, rule, g["fn"], "reads-only-active", "reads only self.active",
              f"{tn}::{gm} reads self.{sorted(fields)}; it must select from `active` only (`all` also holds retained and revoked keys)", file=g["file"], line=g["line"])
    binds = pc.collect_binds(g["body"])

    def derives_from_time(e, depth=3):
        """e is exactly `<time parameter>.as_secs()` (possibly through immutable locals) — no arithmetic, no max()."""
        u = unwrap(e)
        if not isinstance(u, dict):
            return False
        if u.get("e") == "mcall" and is_call_to(u, "core::time::Duration::as_secs") and not u["args"]:
            return time_l is not None and local_of(u["recv"]) == time_l
        l = local_of(u)
        if l is not None and l in binds and depth > 0:
            return derives_from_time(binds[l], depth - 1)
        return False

    ranges = [c for c in ucalls(g["body"]) if c.get("e") == "mcall" and is_call_to(c, "BTreeMap::<K, V, A>::range")
              and unwrap(c["recv"]).get("e") == "field" and unwrap(c["recv"]).get("f") == "active"]
    ok_bound = False
    found = "no BTreeMap::range over `active`"
    for r in ranges:
        a = unwrap(r["args"][0]) if r["args"] else {}
        found = ex_s(a)
        if a.get("e") == "tuple" and len(a["xs"]) == 2:
            lo, hi = unwrap(a["xs"][0]), unwrap(a["xs"][1])
            if is_ctor(lo, "core::ops::range::Bound::Unbounded") and hi.get("e") == "call" and ends(hi.get("ctor") or "", "core::ops::range::Bound::Included") \
                    and derives_from_time(hi["args"][0]):
                ok_bound = True
        elif a.get("e") == "struct" and ends(a["path"].get("def", ""), "core::ops::range::RangeToInclusive", "core::ops::RangeToInclusive"):
            if all(derives_from_time(fx["x"]) for fx in a["fields"]):
                ok_bound = True
    ctx.check(ok_bound, rule, g["fn"], "range-up-to-now", "active.range((Unbounded, Included(now)))",
              f"{tn}::{gm} selects with `{found}`; expected `active.range((Unbounded, Included(<time parameter>)))`: keys whose validity has not started must not sign",
              file=g["file"], line=g["line"])
    nb = [c for c in ucalls(g["body"]) if is_call_to(c, "DoubleEndedIterator::next_back", "Iterator::last", "Iterator::max")]
    ctx.check(bool(nb), rule, g["fn"], "newest", "next_back()",
              f"{tn}::{gm} does not take the last element of the range (next_back/last): the newest valid key must be used for new signatures", file=g["file"], line=g["line"])
    ctx.sample(f"{tn}::{gm}: active.range(..=now).next_back()")


# ---------------------------------------------------------------------------------------------------------------------
# verify/decipher consult the *loaded* key objects. A revocation stored in the database only stops signatures from
# verifying once the key material is reloaded, so every write path — replication included — must refresh it.
# (added after seeded change C34: the replication consumer raised KEY_MATERIAL only if the entry "changed since my cid",
# which is false for every replicated change; a key revoked on one server kept verifying on its replica)

def key_material_refreshed_everywhere(ctx):
    from .lib.x_reload import check_setting
    check_setting(ctx, "K2-key-material-refreshed", "KEY_MATERIAL", "reload_key_material",
                  "the loaded key objects stay stale on this server: a key revoked elsewhere keeps verifying / deciphering here",
                  ("EntryClass::KeyProvider", "EntryClass::KeyObject"))
