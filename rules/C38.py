"""C38 OAuth2 authorisation happens only on registered terms — K3 path conditions with propositional entailment.

Sinks (every site, discovered by def-path): in check_oauth2_authorisation every construction of an AuthoriseResponse variant other
than the two non-granting ones (AuthenticationRequired, ReauthenticationRequired), of AuthorisePermitSuccess, TokenExchangeCode (the
authorisation code payload) and ConsentToken; in check_oauth2_authorise_permit TokenExchangeCode and AuthorisePermitSuccess.

For each sink the facts that hold on every path to it (pathcond.site_conditions; pre-computed guards such as
`valid_match_condition_asserted` are replaced by their initialisers) are turned into propositional formulas over *resolved* atoms and
must ENTAIL each required clause (decided by enumerating all truth assignments of the atoms involved — nothing of kanidm runs):

  client    rs_set_get(auth_req.client_id) succeeded (`?`)
  redirect  redirect_uris.contains(uri) ∨ opaque_origins.contains(uri) ∨ (check_is_loopback(uri) ∧ type_.allow_localhost_redirect())
            with uri = auth_req.redirect_uri and the containers those of the looked-up client. An extra, weaker disjunct yields a
            counter-model (reported with the atoms that let the request through).
  pkce      (auth_req.pkce_request is Some ∧ method == S256) ∨ ¬require_pkce()
  identity  maybe_ident is Some ∧ ¬(ident.get_uuid() == UUID_ANONYMOUS)
  scopes    process_requested_scopes_for_identity(client, ident, auth_req.scope) succeeded (`?`)
K3-fields   what the code / consent token / responses carry is what was checked: account_uuid, code_challenge (the request's challenge
            or None), redirect_uri, scopes (only the granted set), code encrypted with the client's key object.
K3-scopefn  process_requested_scopes_for_identity: Ok only under requested ⊆ scopes available through scope_maps of groups the identity is
            a member of (and non-empty, validated); granted = supplementary (sup_scope_maps ∧ is_memberof) ∪ requested and nothing else.
K3-permit   check_oauth2_authorise_permit: sinks under consent-token decryption with the server consent key, identity and session match,
            not expired, client lookup; the code copies challenge / uri / scopes from the consent token.
K1          who may construct ConsentToken / TokenExchangeCode / Permitted / ConsentRequested / AuthorisePermitSuccess; who reads consent_key.
K4-loopback check_is_loopback / host_is_local / OauthRSType::allow_localhost_redirect decision tables.
 K5-client-fields / K4-client-cache-rebuilt  scope maps, claim map, origin lists come from their own attributes; reload rebuilds the set wholesale.
Not decided: Url parsing/equality semantics, session validity of the identity (C32), consent UI.
"""
import re
from .lib.hir import *
from .lib import pathcond as pc
from .lib.x_g7util import *

META = dict(
    technique="static path-condition extraction (K3) with propositional entailment over resolved atoms, plus field-provenance and who-may-construct checks",
    level_text="Every site that can produce an authorisation code, a consent request or a permit is shown to lie under the registered-redirect condition "
               "(exactly the three registered forms, no weaker alternative), the PKCE condition, a present non-anonymous identity and the requested-scope "
               "check, and to carry exactly the values that were checked; the scope function grants requested ∪ supplementary only. The argument covers "
               "all client configurations and requests, where the tests drive a few fixed requests per client type.",
    level_note="Decides the guard structure and data provenance of the authorisation / permit functions and the scope function. Not decided: Url comparison and "
               "host parsing inside the `url` crate, validity of the session behind the identity (C32), the consent UI in kanidmd_core. "
               "Trusted: rustc facts, purity of the guard calls (contains / require_pkce / check_is_loopback), the atom table of this rule.",
)

LIB = "kanidmd_lib"
CORE = "kanidmd_core"
O2 = "kanidmd_lib::idm::oauth2::"
AUTH = O2 + "<impl idm::server::IdmServerProxyReadTransaction<'_>>::check_oauth2_authorisation"
PERMIT = O2 + "<impl idm::server::IdmServerProxyWriteTransaction<'_>>::check_oauth2_authorise_permit"
REJECT = O2 + "<impl idm::server::IdmServerProxyReadTransaction<'_>>::check_oauth2_authorise_reject"
SCOPEFN = O2 + "process_requested_scopes_for_identity"
NON_GRANTING = {"AuthenticationRequired", "ReauthenticationRequired"}


def has_call(e, *suffixes):
    return any(is_call_to(c, *suffixes) for c in walk(e) if c.get("e") in ("call", "mcall"))


def field_of_local(e, field, local):
    e = unwrap(e)
    while isinstance(e, dict) and e.get("e") == "mcall" and not e["args"] and e["name"] in ("clone", "as_ref", "as_str", "to_owned", "as_deref"):
        e = unwrap(e["recv"])
    return isinstance(e, dict) and e.get("e") == "field" and e["f"] == field and local_of(e["x"]) == local


def free_locals(e):
    """Locals mentioned in e that are not bound inside e (closure params, patterns)."""
    inner = {n["local"] for n in walk(e) if n.get("p") == "bind"}
    return {n["res"]["local"] for n in walk(e) if n.get("e") == "path" and "local" in n.get("res", {})} - inner


def fields_in(e):
    return {n["f"] for n in uwalk(e) if n.get("e") == "field"}


def str_lits(e):
    return {str(n.get("v")) for n in uwalk(e) if n.get("e") == "lit" and n.get("lk") in ("str", "Str")}


def let_local_with(body, pred):
    """(local, init) of the first simple `let x = init` whose init satisfies pred."""
    for n in walk(body):
        if n.get("s") == "let" and "init" in n and n["pat"].get("p") == "bind" and pred(n["init"]):
            return n["pat"]["local"], n["init"]
    return None, None


def check_clause(ctx, rule, fnrec, inst, props, required, desc, why, line=None):
    res, model = entails(props, required)
    if res is True:
        ctx.ok(rule, fnrec["fn"], inst, desc)
        return True
    if res is None:
        ctx.violation(rule, fnrec["fn"], inst, f"cannot decide `{desc}`: too many interacting conditions ({model}) — shape not understood", file=fnrec["file"], line=line)
        return False
    ctx.violation(rule, fnrec["fn"], inst,
                  f"the site is reachable without `{desc}`: the conditions on the path are also satisfied by the assignment [{model_str(model, hide={a for a, v in model.items() if not v and a not in prop_atoms(required)})}] — {why}",
                  file=fnrec["file"], line=line)
    return False


# =======================================================================================================

def run(ctx):
    _run_main(ctx)
    client_cache_rebuilt(ctx)
    client_fields_parsed_from_their_attributes(ctx)


def _run_main(ctx):
    F = ctx.facts
    ctx.explanation = ("K3 with propositional entailment: every granting sink of check_oauth2_authorisation / check_oauth2_authorise_permit lies under client lookup, the "
                       "three-form redirect condition (no weaker disjunct), the PKCE condition, a present non-anonymous identity and the scope check; the values "
                       "carried by the code are the checked ones; the scope function grants requested ∪ supplementary only; K1 who-may-construct; K4 loopback tables.")
    auth = ctx.fn(LIB, AUTH)
    permit = ctx.fn(LIB, PERMIT)
    scopefn = ctx.fn(LIB, SCOPEFN)
    run_authorisation(ctx, F, auth)
    run_permit(ctx, F, permit)
    run_scopefn(ctx, F, scopefn)
    run_k1(ctx, F)
    run_loopback(ctx, F)
    ctx.exhaustive = True      # every sink site of the anchored functions is enumerated from the HIR


# ---- check_oauth2_authorisation ---------------------------------------------------------------------------

def run_authorisation(ctx, F, f):
    body = f["body"]
    binds = pc.collect_binds(body)
    ident_p = param_local(f, 1)
    req_p = param_local(f, 2)
    ok_params = ident_p is not None and req_p is not None and "Identity" in f["params"][1]["ty"] and "AuthorisationRequest" in f["params"][2]["ty"]
    if not ctx.check(ok_params, "K3-authorise", AUTH, "signature", "(self, Option<&Identity>, &AuthorisationRequest, ..)",
                     f"parameters are {[p['ty'] for p in f['params']]}; expected (self, Option<&Identity>, &AuthorisationRequest, ..): shape not understood", file=f["file"], line=f["line"]):
        return
    # the looked-up client
    o2rs, o2rs_init = let_local_with(body, lambda init: any(is_call_to(c, "Oauth2RSInner::rs_set_get") and c["args"] and field_of_local(c["args"][0], "client_id", req_p)
                                                            for c in ucalls(init)))
    if not ctx.check(o2rs is not None, "K3-authorise", AUTH, "client-local", "client bound from rs_set_get(auth_req.client_id)",
                     "no `let o2rs = ..rs_set_get(&auth_req.client_id)..`: the client whose registration is checked is not the one named by the request (shape not understood)",
                     file=f["file"], line=f["line"]):
        return
    # the identity
    ident = None
    for n in walk(body):
        if (n.get("s") == "let" or n.get("e") == "let") and "init" in n and local_of(n["init"]) == ident_p and n["pat"].get("p") == "tstruct" \
                and ends(n["pat"]["path"].get("def", ""), "core::option::Option::Some") and n["pat"]["pats"] and n["pat"]["pats"][0].get("p") == "bind":
            ident = n["pat"]["pats"][0]["local"]
            break
    ctx.check(ident is not None, "K3-authorise", AUTH, "ident-local", "identity bound from maybe_ident",
              "no `let Some(ident) = maybe_ident`: shape not understood", file=f["file"], line=f["line"])
    uuid_l, _ = let_local_with(body, lambda init: unwrap(init).get("e") == "mcall" and is_call_to(unwrap(init), "Identity::get_uuid") and local_of(unwrap(init)["recv"]) == ident)
    # pkce request binding(s)
    pkce_locals = set()
    for n in walk(body):
        if n.get("e") == "let" and field_of_local(n["init"], "pkce_request", req_p):
            pkce_locals |= {l for (l, _) in pat_binds(n["pat"])}
    # scopes tuple
    granted_l = requested_l = None
    for n in walk(body):
        if n.get("s") == "let" and "init" in n and n["pat"].get("p") == "tuple" and has_call(n["init"], SCOPEFN):
            ps = n["pat"]["pats"]
            if len(ps) == 2 and all(p.get("p") == "bind" for p in ps):
                requested_l, granted_l = ps[0]["local"], ps[1]["local"]

    def is_uri(e):
        return field_of_local(e, "redirect_uri", req_p)

    def atom_of(leaf):
        kind = leaf[1]
        if kind == "expr":
            e = unwrap(leaf[2])
            if e.get("e") == "mcall" and e["name"] == "contains" and len(e["args"]) == 1 and is_uri(e["args"][0]):
                r = unwrap(e["recv"])
                if r.get("e") == "field" and local_of(r["x"]) == o2rs and r["f"] == "redirect_uris":
                    return ("redirect_uris.contains(uri)", True)
                if r.get("e") == "field" and local_of(r["x"]) == o2rs and r["f"] == "opaque_origins":
                    return ("opaque_origins.contains(uri)", True)
            if e.get("e") == "call" and is_call_to(e, O2 + "check_is_loopback") and len(e["args"]) == 1 and is_uri(e["args"][0]):
                return ("check_is_loopback(uri)", True)
            if e.get("e") == "mcall" and is_call_to(e, "OauthRSType::allow_localhost_redirect"):
                r = unwrap(e["recv"])
                if r.get("e") == "field" and r["f"] == "type_" and local_of(r["x"]) == o2rs:
                    return ("allow_localhost_redirect()", True)
            if e.get("e") == "mcall" and is_call_to(e, "Oauth2RS::require_pkce") and local_of(e["recv"]) == o2rs:
                return ("require_pkce()", True)
            if e.get("e") == "bin" and e["op"] in ("==", "!="):
                l, r = unwrap(e["l"]), unwrap(e["r"])
                for (a, b) in ((l, r), (r, l)):
                    if def_of(b).endswith("CodeChallengeMethod::S256") and a.get("e") == "field" and a["f"] == "code_challenge_method" and local_of(a["x"]) in pkce_locals:
                        return ("method==S256", e["op"] == "==")
                    if def_of(b).endswith("::UUID_ANONYMOUS") and ((uuid_l is not None and local_of(a) == uuid_l) or
                                                                   (a.get("e") == "mcall" and is_call_to(a, "Identity::get_uuid") and local_of(a["recv"]) == ident)):
                        return ("uuid==ANONYMOUS", e["op"] == "==")
        elif kind == "let":
            pat, init = leaf[2]
            if pat.get("p") == "tstruct" and ends(pat["path"].get("def", ""), "core::option::Option::Some"):
                if field_of_local(init, "pkce_request", req_p):
                    return ("pkce_request is Some", True)
                if local_of(init) == ident_p:
                    return ("identity is Some", True)
        rl = as_result_leaf(leaf)
        if rl is not None:
            e, pos = rl
            for c in ucalls(e):
                if is_call_to(c, "Oauth2RSInner::rs_set_get") and c["args"] and field_of_local(c["args"][0], "client_id", req_p):
                    return ("client found", pos)
                if is_call_to(c, SCOPEFN) and len(c["args"]) == 3 and local_of(c["args"][0]) == o2rs and local_of(c["args"][1]) == ident:
                    a2 = c["args"][2]
                    l2 = local_of(a2)
                    if l2 is not None and l2 in binds:
                        a2 = binds[l2]
                    if any(field_of_local(x, "scope", req_p) for x in walk(a2) if x.get("e") == "field"):
                        return ("requested scopes held", pos)
        return None

    A = P_atom
    CLAUSES = [
        ("client", A("client found"), "the client named by the request is registered",
         "a code would be issued for an unknown client"),
        ("redirect", P_or(A("redirect_uris.contains(uri)"), A("opaque_origins.contains(uri)"), P_and(A("check_is_loopback(uri)"), A("allow_localhost_redirect()"))),
         "redirect_uris.contains(uri) ∨ opaque_origins.contains(uri) ∨ (check_is_loopback(uri) ∧ allow_localhost_redirect())",
         "the authorisation code can be sent to a redirect URI that is not registered for the client (a weaker or additional way to pass the redirect check)"),
        ("pkce", P_or(P_and(A("pkce_request is Some"), A("method==S256")), P_not(A("require_pkce()"))),
         "(PKCE challenge present ∧ method S256) ∨ ¬require_pkce()",
         "a client that requires PKCE obtains a code without an S256 challenge"),
        ("identity", P_and(A("identity is Some"), P_not(A("uuid==ANONYMOUS"))),
         "identity present ∧ not anonymous", "an unauthenticated or anonymous session obtains a code"),
        ("scopes", A("requested scopes held"), "process_requested_scopes_for_identity(client, ident, auth_req.scope) succeeded",
         "a code is issued without checking that the user holds every requested scope through the client's scope maps"),
    ]

    ar = F.item(LIB, "enum", O2 + "AuthoriseResponse")
    variants = [v["v"] for v in ar["variants"]] if ar else []
    ctx.check(NON_GRANTING <= set(variants) and len(variants) >= 4, "K3-authorise", AUTH, "response-variants", f"AuthoriseResponse variants {variants}",
              f"AuthoriseResponse has variants {variants}; the rule's non-granting allow-list {sorted(NON_GRANTING)} no longer matches", file=f["file"], line=f["line"])
    sink_defs = {O2 + "AuthoriseResponse::" + v for v in variants if v not in NON_GRANTING} | {O2 + "TokenExchangeCode", O2 + "ConsentToken", O2 + "AuthorisePermitSuccess"}

    def is_sink(n):
        return n.get("e") in ("struct", "call", "path") and def_of(n) in sink_defs and not n.get("exp")

    sites = pc.site_conditions(body, is_sink)
    ctx.floor("K3-authorise", "granting sink sites in check_oauth2_authorisation", len(sites), 5)
    seen = {}
    by_name = {}
    for (s, conds) in sites:
        nm = short(def_of(s), 1)
        seen[nm] = seen.get(nm, 0) + 1
        key = nm if seen[nm] == 1 else f"{nm}#{seen[nm]}"
        by_name[key] = s
        props = [to_prop(subst(c, binds), atom_of) for c in conds]
        for (cname, req, desc, why) in CLAUSES:
            check_clause(ctx, "K3-authorise", f, f"{key}:{cname}", props, req, desc, why, line=s.get("line"))
        ctx.sample(f"{key} @{s.get('line')}: client ∧ redirect(3 forms) ∧ pkce ∧ identity ∧ scopes entailed")
    for need in ("ConsentRequested", "Permitted", "TokenExchangeCode", "ConsentToken"):
        ctx.check(any(k.split("#")[0] == need for k in by_name), "K3-authorise", AUTH, f"sink-present:{need}", "sink found",
                  f"no construction of {need} in check_oauth2_authorisation: anchor drift (the rule would pass vacuously)", file=f["file"], line=f["line"])

    # ---- K3-fields: what the sinks carry ------------------------------------------------------------------
    rule = "K3-fields"
    # the PKCE challenge local: its initialiser yields Some(<request's challenge>) or None
    chal_l, chal_init = let_local_with(body, lambda init: unwrap(init).get("e") == "if" and unwrap(unwrap(init)["cond"]).get("e") == "let"
                                       and field_of_local(unwrap(unwrap(init)["cond"])["init"], "pkce_request", req_p))
    if ctx.check(chal_l is not None, rule, AUTH, "challenge-local", "code_challenge bound from `if let Some(p) = &auth_req.pkce_request`",
                 "no local initialised by `if let Some(..) = &auth_req.pkce_request {..}`: shape not understood", file=f["file"], line=f["line"]):
        bad = []
        for v in tail_values(chal_init):
            v = unwrap(v)
            if v.get("e") == "ret" or is_ctor(v, "core::option::Option::None"):
                continue
            if v.get("e") == "call" and ends(v.get("ctor") or "", "core::option::Option::Some") and \
                    any(x.get("e") == "field" and x["f"] == "code_challenge" and local_of(x["x"]) in pkce_locals for x in walk(v)):
                continue
            bad.append(ex_s(v)[:70])
        ctx.check(not bad, rule, AUTH, "challenge-value", "Some(request's code_challenge) | None",
                  f"the recorded code challenge can be `{bad}` instead of the request's own challenge: the exchange would verify against a value the client did not send",
                  file=f["file"], line=unwrap(chal_init).get("line"))

    def fld(s, name):
        s = unwrap(s)
        if s.get("e") == "struct":
            for fx in s["fields"]:
                if fx["f"] == name:
                    return fx["x"]
        return None

    def inner_struct(s):
        """Permitted(AuthorisePermitSuccess{..}) -> the struct."""
        s = unwrap(s)
        if s.get("e") == "call" and s["args"]:
            return unwrap(s["args"][0])
        return s

    def carries(sname, fname, ok_pred, desc, bad_why):
        for key, s in by_name.items():
            if key.split("#")[0] != sname:
                continue
            x = fld(inner_struct(s), fname)
            if x is None and inner_struct(s).get("e") != "struct":
                continue
            ctx.check(x is not None and ok_pred(x), rule, AUTH, f"{key}.{fname}", desc,
                      f"{sname}.{fname} is `{ex_s(x)[:80] if x is not None else 'missing'}`, expected {desc}: {bad_why}", file=f["file"], line=(x or s).get("line"))

    def only_granted(x):
        return granted_l is not None and free_locals(x) == {granted_l} and not fields_in(x) and not str_lits(x)

    def is_uri_val(x):
        return is_uri(x) and free_locals(x) == {req_p}

    for sname in ("TokenExchangeCode", "ConsentToken"):
        carries(sname, "code_challenge", lambda x: chal_l is not None and local_of(x) == chal_l, "the checked PKCE challenge local",
                "the challenge stored in the code is not the one validated above")
        carries(sname, "redirect_uri", is_uri_val, "auth_req.redirect_uri (the URI that passed the redirect check)",
                "the URI recorded for the exchange differs from the one that was validated")
        carries(sname, "scopes", only_granted, "the granted scope set only (requested ∪ supplementary)",
                "scopes beyond requested ∪ supplementary are granted")
    carries("TokenExchangeCode", "account_uuid", lambda x: uuid_l is not None and local_of(x) == uuid_l, "ident.get_uuid() (the uuid tested against UUID_ANONYMOUS)",
            "the code is issued for a different account than the one checked")
    carries("ConsentToken", "client_id", lambda x: field_of_local(x, "client_id", req_p), "auth_req.client_id", "the consent is bound to another client than the one checked")
    carries("ConsentToken", "ident_id", lambda x: unwrap(x).get("e") == "mcall" and is_call_to(unwrap(x), "Identity::get_event_origin_id") and local_of(unwrap(x)["recv"]) == ident,
            "ident.get_event_origin_id()", "the consent is not bound to the identity that was checked")
    carries("ConsentRequested", "scopes", only_granted, "the granted scope set only", "the consent screen / grant shows scopes other than requested ∪ supplementary")
    carries("AuthorisePermitSuccess", "redirect_uri", is_uri_val, "auth_req.redirect_uri", "the browser is redirected to a URI other than the validated one")
    carries("Permitted", "redirect_uri", is_uri_val, "auth_req.redirect_uri", "the browser is redirected to a URI other than the validated one")

    # the code is the TokenExchangeCode encrypted with the client's key object
    def encrypted_with_client_key(x):
        l = local_of(x)
        init = binds.get(l)
        if init is None:
            return False
        for c in ucalls(init):
            if is_call_to(c, "KeyObjectT::jwe_a128gcm_encrypt", "jwe_a128gcm_encrypt"):
                r = unwrap(c["recv"])
                if r.get("e") == "field" and r["f"] == "key_object" and local_of(r["x"]) == o2rs:
                    return True
        return False
    carries("AuthorisePermitSuccess", "code", encrypted_with_client_key, "a value encrypted with the looked-up client's key_object (jwe_a128gcm_encrypt)",
            "the exchange decrypts codes with the client's own key; a code encrypted with another key is either unusable or redeemable at another client")
    ctx.check(granted_l is not None, rule, AUTH, "granted-local", "(requested, granted) bound from process_requested_scopes_for_identity",
              "no `let (req, granted) = process_requested_scopes_for_identity(..)?`: shape not understood", file=f["file"], line=f["line"])


# ---- check_oauth2_authorise_permit ----------------------------------------------------------------------------

def run_permit(ctx, F, f):
    body = f["body"]
    binds = pc.collect_binds(body)
    rule = "K3-permit"
    ident = param_local(f, 1)
    tok_p = param_local(f, 2)
    ct_p = param_local(f, 3)
    if not ctx.check(ident is not None and tok_p is not None and "Identity" in f["params"][1]["ty"], rule, PERMIT, "signature", "(self, &Identity, consent_token, ct)",
                     f"parameters are {[p['ty'] for p in f['params']]}: shape not understood", file=f["file"], line=f["line"]):
        return

    def derives_from_token(e, depth=3):
        if mentions_local(e, tok_p):
            return True
        if depth > 0:
            for l in free_locals(e):
                if l in binds and derives_from_token(binds[l], depth - 1):
                    return True
        return False

    def is_consent_decipher(init):
        for c in ucalls(init):
            if c.get("e") == "mcall" and c["name"] == "decipher":
                r = unwrap(c["recv"])
                if r.get("e") == "field" and r["f"] == "consent_key" and c["args"] and derives_from_token(c["args"][0]):
                    return True
        return False

    creq, _ = let_local_with(body, is_consent_decipher)
    if not ctx.check(creq is not None, rule, PERMIT, "consent-local", "consent request = consent_key.decipher(consent_token)",
                     "no local bound from `..consent_key.decipher(<consent_token>)..`: the consent token is not authenticated with the server's consent key (shape not understood)",
                     file=f["file"], line=f["line"]):
        return
    o2rs, _ = let_local_with(body, lambda init: any(is_call_to(c, "Oauth2RSInner::rs_set_get") and c["args"] and field_of_local(c["args"][0], "client_id", creq) for c in ucalls(init)))
    ctx.check(o2rs is not None, rule, PERMIT, "client-local", "client bound from rs_set_get(consent_req.client_id)",
              "no `let o2rs = ..rs_set_get(&consent_req.client_id)..`: shape not understood", file=f["file"], line=f["line"])

    def atom_of(leaf):
        kind = leaf[1]
        rl = as_result_leaf(leaf)
        if rl is not None:
            e, pos = rl
            if is_consent_decipher(e):
                return ("consent token decrypts", pos)
            for c in ucalls(e):
                if is_call_to(c, "Oauth2RSInner::rs_set_get") and c["args"] and field_of_local(c["args"][0], "client_id", creq):
                    return ("client found", pos)
        if kind == "expr":
            e = unwrap(leaf[2])
            if e.get("e") == "bin" and e["op"] in ("==", "!="):
                l, r = unwrap(e["l"]), unwrap(e["r"])
                for (a, b) in ((l, r), (r, l)):
                    if field_of_local(a, "ident_id", creq) and b.get("e") == "mcall" and is_call_to(b, "Identity::get_event_origin_id") and local_of(b["recv"]) == ident:
                        return ("ident_id matches", e["op"] == "==")
                    if field_of_local(a, "session_id", creq) and b.get("e") == "mcall" and is_call_to(b, "Identity::get_session_id") and local_of(b["recv"]) == ident:
                        return ("session_id matches", e["op"] == "==")
            if e.get("e") == "bin" and e["op"] in ("<=", "<", ">=", ">"):
                l, r, op = unwrap(e["l"]), unwrap(e["r"]), e["op"]
                if field_of_local(r, "expiry", creq):
                    l, r, op = r, l, {"<=": ">=", "<": ">", ">=": "<=", ">": "<"}[op]
                if field_of_local(l, "expiry", creq) and ct_p is not None and mentions_local(r, ct_p):
                    return ("expiry<=now", op in ("<=", "<"))
        return None

    A = P_atom
    CLAUSES = [
        ("consent-token", A("consent token decrypts"), "the consent token decrypts with the server's consent key",
         "a permit is issued for a consent request the server never produced (bypassing every check of check_oauth2_authorisation)"),
        ("same-identity", A("ident_id matches"), "consent_req.ident_id == ident.get_event_origin_id()", "one user's consent request is redeemed by another identity"),
        ("same-session", A("session_id matches"), "consent_req.session_id == ident.get_session_id()", "the consent request is redeemed from another session"),
        ("not-expired", P_not(A("expiry<=now")), "¬(consent_req.expiry <= now)", "an expired consent request is redeemed"),
        ("client", A("client found"), "rs_set_get(consent_req.client_id) succeeded", "a code is issued for a client that no longer exists"),
    ]
    sink_defs = {O2 + "TokenExchangeCode", O2 + "AuthorisePermitSuccess"}
    sites = pc.site_conditions(body, lambda n: n.get("e") == "struct" and def_of(n) in sink_defs and not n.get("exp"))
    ctx.floor(rule, "sink sites in check_oauth2_authorise_permit", len(sites), 2)
    by_name = {}
    for (s, conds) in sites:
        nm = short(def_of(s), 1)
        key = nm if nm not in by_name else f"{nm}#{sum(1 for k in by_name if k.split('#')[0] == nm) + 1}"
        by_name[key] = s
        props = [to_prop(subst(c, binds), atom_of) for c in conds]
        for (cname, req, desc, why) in CLAUSES:
            check_clause(ctx, rule, f, f"{key}:{cname}", props, req, desc, why, line=s.get("line"))
    for need in ("TokenExchangeCode", "AuthorisePermitSuccess"):
        ctx.check(any(k.split("#")[0] == need for k in by_name), rule, PERMIT, f"sink-present:{need}", "sink found", f"no construction of {need} in check_oauth2_authorise_permit: anchor drift",
                  file=f["file"], line=f["line"])

    def fld(s, name):
        for fx in unwrap(s)["fields"]:
            if fx["f"] == name:
                return fx["x"]
        return None
    for key, s in by_name.items():
        if key.split("#")[0] == "TokenExchangeCode":
            for fname in ("code_challenge", "redirect_uri", "scopes"):
                x = fld(s, fname)
                ctx.check(x is not None and field_of_local(x, fname, creq), "K3-fields", PERMIT, f"{key}.{fname}", f"consent_req.{fname}",
                          f"the code's {fname} is `{ex_s(x)[:70] if x is not None else 'missing'}`, expected the value recorded in the authenticated consent token (consent_req.{fname}): "
                          f"the code would carry a {fname} that was never validated by check_oauth2_authorisation", file=f["file"], line=(x or s).get("line"))
            x = fld(s, "account_uuid")
            l = local_of(x) if x is not None else None
            init = unwrap(binds[l]) if l in binds else (unwrap(x) if x is not None else {})
            ctx.check(init.get("e") == "mcall" and is_call_to(init, "Identity::get_uuid") and local_of(init["recv"]) == ident, "K3-fields", PERMIT, f"{key}.account_uuid", "ident.get_uuid()",
                      f"the code's account_uuid is `{ex_s(x)[:70] if x is not None else 'missing'}`, expected the permitting identity's uuid", file=f["file"], line=(x or s).get("line"))
        else:
            x = fld(s, "redirect_uri")
            ctx.check(x is not None and field_of_local(x, "redirect_uri", creq), "K3-fields", PERMIT, f"{key}.redirect_uri", "consent_req.redirect_uri",
                      f"the permit redirects to `{ex_s(x)[:70] if x is not None else 'missing'}`, expected consent_req.redirect_uri (the validated URI)", file=f["file"], line=(x or s).get("line"))
            x = fld(s, "code")
            l = local_of(x) if x is not None else None
            init = binds.get(l)
            ok = False
            if init is not None:
                for c in ucalls(init):
                    if is_call_to(c, "KeyObjectT::jwe_a128gcm_encrypt", "jwe_a128gcm_encrypt"):
                        r = unwrap(c["recv"])
                        ok = ok or (r.get("e") == "field" and r["f"] == "key_object" and local_of(r["x"]) == o2rs)
            ctx.check(ok, "K3-fields", PERMIT, f"{key}.code", "encrypted with the client's key_object",
                      f"the code `{ex_s(x)[:60] if x is not None else 'missing'}` is not produced by jwe_a128gcm_encrypt on the looked-up client's key_object", file=f["file"], line=(x or s).get("line"))


# ---- process_requested_scopes_for_identity ---------------------------------------------------------------------

def run_scopefn(ctx, F, f):
    rule = "K3-scopefn"
    body = f["body"]
    binds = pc.collect_binds(body)
    o2rs, ident, reqp = param_local(f, 0), param_local(f, 1), param_local(f, 2)
    if not ctx.check(None not in (o2rs, ident, reqp) and "Oauth2RS" in f["params"][0]["ty"] and "Identity" in f["params"][1]["ty"], rule, SCOPEFN, "signature", "(o2rs, ident, req_scopes)",
                     f"parameters are {[p['ty'] for p in f['params']]}: shape not understood", file=f["file"], line=f["line"]):
        return

    def from_req(e, depth=3):
        if mentions_local(e, reqp):
            return True
        return depth > 0 and any(l in binds and from_req(binds[l], depth - 1) for l in free_locals(e))

    def member_filtered(init, field):
        """init iterates o2rs.<field> keeping only maps of groups the identity is a member of."""
        fs = {n["f"] for n in uwalk(init) if n.get("e") == "field" and local_of(n["x"]) == o2rs}
        mem = [c for c in ucalls(init) if is_call_to(c, "Identity::is_memberof") and local_of(c["recv"]) == ident]
        filt = [c for c in ucalls(init) if is_call_to(c, "Iterator::filter_map", "Iterator::filter")]
        inside = any(any(m is x for x in walk(c)) for c in filt for m in mem)
        return fs == {field} and bool(mem) and inside

    # available scopes local
    avail, avail_init = let_local_with(body, lambda init: member_filtered(init, "scope_maps"))
    ctx.check(avail is not None, rule, SCOPEFN, "available-set", "available = scope_maps filtered by ident.is_memberof",
              "no local built from o2rs.scope_maps filtered by ident.is_memberof(group): the set the request is compared against is not the user's scope-map entitlement",
              file=f["file"], line=f["line"])

    def atom_of(leaf):
        if leaf[1] == "expr":
            e = unwrap(leaf[2])
            if e.get("e") == "mcall" and is_call_to(e, "BTreeSet::<T, A>::is_subset", "HashSet::<T, S>::is_subset") and len(e["args"]) == 1:
                if from_req(e["recv"]) and not mentions_local(e["recv"], o2rs) and avail is not None and local_of(e["args"][0]) == avail:
                    return ("requested ⊆ available", True)
            if e.get("e") == "mcall" and e["name"] == "is_empty" and from_req(e["recv"]):
                return ("requested is empty", True)
        rl = as_result_leaf(leaf)
        if rl is not None:
            for c in ucalls(rl[0]):
                if is_call_to(c, O2 + "validate_scopes") and c["args"] and from_req(c["args"][0]):
                    return ("scope syntax valid", rl[1])
        return None

    sites = pc.site_conditions(body, lambda n: n.get("e") == "call" and ends(n.get("ctor") or "", "core::result::Result::Ok") and not n.get("exp"))
    ctx.floor(rule, "Ok(..) sites in process_requested_scopes_for_identity", len(sites), 1)
    A = P_atom
    for i, (s, conds) in enumerate(sites):
        key = "Ok" if i == 0 else f"Ok#{i+1}"
        props = [to_prop(subst(c, binds), atom_of) for c in conds]
        check_clause(ctx, rule, f, f"{key}:subset", props, A("requested ⊆ available"), "requested.is_subset(available)",
                     "scopes the user does not hold through the client's scope maps are accepted")
        check_clause(ctx, rule, f, f"{key}:non-empty", props, P_not(A("requested is empty")), "¬requested.is_empty()", "an empty scope request is accepted")
        # the tuple returned: (requested, granted)
        t = unwrap(s["args"][0]) if s["args"] else {}
        if not ctx.check(t.get("e") == "tuple" and len(t["xs"]) == 2, rule, SCOPEFN, f"{key}:returns-pair", "(requested, granted)", f"Ok carries `{ex_s(t)[:60]}`, expected a (requested, granted) pair",
                         file=f["file"], line=s.get("line")):
            continue
        r0, g0 = t["xs"]
        ctx.check(from_req(r0) and not mentions_local(r0, o2rs), rule, SCOPEFN, f"{key}:requested", "first = requested scopes",
                  f"the first component `{ex_s(r0)[:60]}` is not the requested scope set", file=f["file"], line=s.get("line"))
        gl = local_of(g0)
        ginit = binds.get(gl)
        ok = False
        why = f"`{ex_s(g0)[:60]}` is not a local built in this function"
        if ginit is not None:
            fs = {n["f"] for n in uwalk(ginit) if n.get("e") == "field" and local_of(n["x"]) == o2rs}
            others = {l for l in free_locals(ginit) if l not in (o2rs, ident)}
            not_req = [l for l in others if not (l == reqp or (l in binds and from_req(binds[l])))]
            lits = str_lits(ginit)
            okm = member_filtered(ginit, "sup_scope_maps")
            if fs != {"sup_scope_maps"}:
                why = f"it reads client field(s) {sorted(fs)}; only sup_scope_maps (supplementary scopes) may contribute besides the requested set"
            elif not okm:
                why = "the supplementary maps are not filtered by ident.is_memberof(group): supplementary scopes of groups the user is not in are granted"
            elif not_req:
                why = "it also draws from other local value(s) than the requested set"
            elif lits:
                why = f"it adds hard-coded scope(s) {sorted(lits)}"
            elif not any(from_req(binds[l]) if l in binds else l == reqp for l in others):
                why = "the requested scopes are not part of the granted set"
            else:
                ok = True
        ctx.check(ok, rule, SCOPEFN, f"{key}:granted", "granted = sup_scope_maps[is_memberof] ∪ requested",
                  f"the granted scope set is wrong: {why} — the property grants requested ∪ supplementary scopes the user holds, and nothing else", file=f["file"],
                  line=(unwrap(ginit) if ginit is not None else s).get("line"))
        ctx.sample("process_requested_scopes_for_identity: Ok under requested ⊆ scope_maps[is_memberof]; granted = sup_scope_maps[is_memberof] ∪ requested")


# ---- K1 ---------------------------------------------------------------------------------------------------------------

def run_k1(ctx, F):
    allowed = {
        O2 + "ConsentToken": {AUTH},
        O2 + "TokenExchangeCode": {AUTH, PERMIT},
        O2 + "AuthoriseResponse::Permitted": {AUTH},
        O2 + "AuthoriseResponse::ConsentRequested": {AUTH},
        O2 + "AuthorisePermitSuccess": {AUTH, PERMIT},
    }
    found = {k: set() for k in allowed}
    for crate in (LIB, CORE):
        for name in set(F.fns_mentioning(crate, "idm::oauth2::ConsentToken") + F.fns_mentioning(crate, "idm::oauth2::TokenExchangeCode") +
                        F.fns_mentioning(crate, "idm::oauth2::AuthoriseResponse::") + F.fns_mentioning(crate, "idm::oauth2::AuthorisePermitSuccess")):
            if "serde_core::" in name or "__CALLSITE" in name:
                continue
            fr = F.fn(crate, name)
            if fr is None:
                continue
            for n in walk(fr["body"]):
                if n.get("e") in ("struct", "call") and def_of(n) in allowed:
                    found[def_of(n)].add(name)
    for d, fns in found.items():
        for name in sorted(fns):
            ctx.check(name in allowed[d], "K1-construct", name, f"constructs:{short(d,1)}", "allowed constructor",
                      f"{short(name,1)} constructs {short(d)}; only {[short(a,1) for a in sorted(allowed[d])]} may (they are the functions whose guards this rule checks) — "
                      f"a grant could be produced without the registered-terms checks")
        ctx.check(allowed[d] <= fns, "K1-construct", "-", f"positive-control:{short(d,1)}", "expected constructors found",
                  f"{short(d)} is no longer constructed in {[short(a,1) for a in sorted(allowed[d] - fns)]}: anchor drift")
    # consent_key readers
    readers = set()
    for name in F.fns_mentioning(LIB, '"consent_key"'):
        if "__CALLSITE" in name:
            continue
        fr = F.fn(LIB, name)
        if fr and any(n.get("e") == "field" and n["f"] == "consent_key" for n in walk(fr["body"])):
            readers.add(name)
    ok_readers = {AUTH, PERMIT, REJECT}
    derived_clone = {n for n in readers if re.match(r"kanidmd_lib::<.* as core::clone::Clone>::clone$", n)}
    for name in sorted(readers - derived_clone):
        ctx.check(name in ok_readers, "K1-consent-key", name, "reads:consent_key", "allowed user of the consent key",
                  f"{short(name,1)} uses the server consent key; only authorisation (encipher), permit and reject (decipher) may: anything else can mint or read consent tokens")
    ctx.check({AUTH, PERMIT} <= readers, "K1-consent-key", "-", "positive-control", "authorisation and permit use the consent key", "consent_key users not found: anchor drift")


# ---- K4-loopback ----------------------------------------------------------------------------------------------------------

def run_loopback(ctx, F):
    rule = "K4-loopback"
    f = ctx.fn(LIB, O2 + "check_is_loopback")
    calls = ucalls(f["body"])
    up = param_local(f, 0)
    ok = any(is_call_to(c, "Url::host") and local_of(c["recv"]) == up for c in calls) and any(is_call_to(c, O2 + "host_is_local") for c in calls) \
        and any(is_call_to(c, "Option::<T>::is_some_and") for c in calls)
    tv = [unwrap(v) for v in tail_values(f["body"])]
    ok = ok and len(tv) == 1 and tv[0].get("e") == "mcall" and is_call_to(tv[0], "Option::<T>::is_some_and") and not [n for n in uwalk(f["body"]) if n.get("e") == "lit" and n.get("lk") == "bool"]
    ctx.check(ok, rule, f["fn"], "host-is-local", "uri.host().is_some_and(host_is_local)",
              "check_is_loopback is no longer `redirect_uri.host().is_some_and(|h| host_is_local(&h))`: a non-loopback URI could count as loopback for public clients",
              file=f["file"], line=f["line"])
    h = ctx.fn(LIB, O2 + "host_is_local")
    ms = find_matches(h["body"], "Host<&str>")
    if ctx.check(len(ms) == 1 and unwrap(h["body"]) is ms[0], rule, h["fn"], "table-found", "match over url::Host",
                 "host_is_local is not a single `match` over url::Host: shape not understood", file=h["file"], line=h["line"]):
        m = ms[0]
        for a in m["arms"]:
            vs = [t.split("::")[-1] for t in tokens(a["pat"]) if t.startswith("def:url::host::Host::") or t.startswith("def:url::Host::")]
            bound = {l for (l, _) in pat_binds(a["pat"])}
            v = unwrap(tail_values(a["body"])[0])
            for vn in vs or ["_"]:
                if vn in ("Ipv4", "Ipv6"):
                    ok = v.get("e") == "mcall" and is_call_to(v, f"Ipv{vn[-1]}Addr::is_loopback") and local_of(v["recv"]) in bound
                    exp = f"ip.is_loopback()"
                elif vn == "Domain":
                    ok = v.get("e") == "bin" and v["op"] == "==" and {local_of(v["l"]), local_of(v["r"])} & bound and "localhost" in {str(x.get("v")) for x in walk(v) if x.get("e") == "lit"} \
                        and len([x for x in walk(v) if x.get("e") == "lit"]) == 1
                    exp = 'domain == "localhost"'
                else:
                    ok = v.get("e") == "lit" and v.get("v") == "false"
                    exp = "false"
                ctx.check(ok, rule, h["fn"], f"arm:{vn}", exp, f"host_is_local: arm {vn} yields `{ex_s(v)[:60]}`, expected `{exp}`: hosts other than loopback addresses / `localhost` "
                          f"would be treated as local redirect targets", file=h["file"], line=v.get("line"))
    a = ctx.fn(LIB, O2 + "OauthRSType::allow_localhost_redirect")
    ms = find_matches(a["body"], "OauthRSType")
    if ctx.check(len(ms) == 1, rule, a["fn"], "table-found", "match over OauthRSType", "allow_localhost_redirect is not a single match over OauthRSType: shape not understood",
                 file=a["file"], line=a["line"]):
        it = F.item(LIB, "enum", O2 + "OauthRSType")
        vs = [v["v"] for v in it["variants"]]
        tab = arm_table(ms[0], O2 + "OauthRSType", vs)
        for vn in vs:
            for arm in tab.get(vn, []):
                v = unwrap(tail_values(arm["body"])[0])
                if vn == "Public":
                    l = local_of(v)
                    fb = field_binding_of(arm["pat"], l) if l is not None else None
                    ok = fb is not None and fb[1] == "allow_localhost_redirect"
                    exp = "the client's allow_localhost_redirect flag"
                else:
                    ok = v.get("e") == "lit" and v.get("v") == "false"
                    exp = "false"
                ctx.check(ok, rule, a["fn"], f"arm:{vn}", exp, f"allow_localhost_redirect: {vn} yields `{ex_s(v)[:60]}`, expected {exp}: loopback redirects are only for public clients "
                          f"that enabled them", file=a["file"], line=v.get("line"))


# ---------------------------------------------------------------------------------------------------------------------
# "Registered terms" are what Oauth2ResourceServersWriteTransaction::reload makes of the stored client: the scope maps and
# the supplementary scope maps have the same type, as have the three origin lists. Each must come from its own attribute
# (shared engine rules/lib/x_fields.py).

def client_fields_parsed_from_their_attributes(ctx):
    from .lib.x_fields import check_field_sources
    n = check_field_sources(ctx, LIB, "K5-client-fields", [(
        "kanidmd_lib::idm::oauth2::Oauth2ResourceServersWriteTransaction::<'_>::reload", "kanidmd_lib::idm::oauth2::Oauth2RS", {
            "scope_maps": {"OAuth2RsScopeMap"}, "sup_scope_maps": {"OAuth2RsSupScopeMap"}, "claim_map": {"OAuth2RsClaimMap"},
            "origins": {"OAuth2RsOrigin"}, "opaque_origins": {"OAuth2RsOrigin"}, "redirect_uris": {"OAuth2RsOrigin"}})],
        "authorisation requests are then judged against terms the administrator did not register (e.g. supplementary scopes become requestable)")
    ctx.floor("K5-client-fields", "client fields traced to their attributes", n, 6)


# ---------------------------------------------------------------------------------------------------------------------
# ... and the loaded clients are the registered ones only if reload rebuilds the set wholesale (rules/lib/x_cache.py).

def client_cache_rebuilt(ctx):
    from .lib.x_cache import check_rebuilt_wholesale
    check_rebuilt_wholesale(ctx, LIB, "K4-client-cache-rebuilt", "kanidmd_lib::idm::oauth2::Oauth2ResourceServersWriteTransaction::<'_>::reload",
                            "a client whose redirect URIs or scope maps were changed keeps being judged on its old terms")
