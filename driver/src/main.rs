// kvfacts: fact extractor for the kanidm static checks.
//
// Runs as RUSTC_WORKSPACE_WRAPPER under `cargo +nightly check`. For every workspace
// crate it writes, into $KV_OUT:
//   <crate>.<kind>.hir.jsonl    one JSON object per fn / assoc fn / static / const body
//   <crate>.<kind>.calls.tsv    MIR call terminators (caller, callee, resolved, line, exp)
//   <crate>.<kind>.items.jsonl  ADTs, consts, statics, impls, fns
//   <crate>.<kind>.done         the nonce of this run ($KV_NONCE) + counts
// One write per file per process. Nothing in here decides a property.
#![feature(rustc_private)]
extern crate rustc_driver;
extern crate rustc_hir;
extern crate rustc_interface;
extern crate rustc_middle;
extern crate rustc_span;
mod hirjson;

use hirjson::{esc, qname};
use rustc_driver::Compilation;
use rustc_hir::def::DefKind;
use rustc_middle::mir::{Operand, TerminatorKind};
use rustc_middle::ty::{self, Instance, TyCtxt, TypingEnv};

struct Cb;

fn line_of(tcx: TyCtxt<'_>, sp: rustc_span::Span) -> (String, usize) {
    let sm = tcx.sess.source_map();
    let lo = sm.lookup_char_pos(sp.lo());
    (format!("{}", lo.file.name.prefer_local_unconditionally()), lo.line)
}

fn dump_calls<'tcx>(tcx: TyCtxt<'tcx>, out: &mut String) -> (usize, usize, usize) {
    let (mut nfn, mut ncalls, mut nres) = (0usize, 0usize, 0usize);
    for ldid in tcx.hir_body_owners() {
        let did = ldid.to_def_id();
        let kind = tcx.def_kind(did);
        if !matches!(kind, DefKind::Fn | DefKind::AssocFn | DefKind::Closure) {
            continue;
        }
        nfn += 1;
        let body = tcx.optimized_mir(did);
        let path = qname(tcx, did);
        let typing_env = TypingEnv::post_analysis(tcx, did);
        for (_bbi, bb) in body.basic_blocks.iter_enumerated() {
            let Some(term) = &bb.terminator else { continue };
            let TerminatorKind::Call { func, .. } = &term.kind else { continue };
            ncalls += 1;
            let sp = term.source_info.span;
            let (_f, line) = line_of(tcx, sp);
            let exp = if sp.from_expansion() { 1 } else { 0 };
            match func {
                Operand::Constant(c) => {
                    if let ty::FnDef(cdid, args) = c.const_.ty().kind() {
                        let callee = qname(tcx, *cdid);
                        let mut resolved = String::new();
                        let mut self_ty = String::new();
                        if let Ok(Some(inst)) = Instance::try_resolve(tcx, typing_env, *cdid, args) {
                            nres += 1;
                            resolved = qname(tcx, inst.def_id());
                        }
                        if let Some(t) = args.types().next() {
                            self_ty = format!("{}", t);
                        }
                        out.push_str(&format!(
                            "{}\t{}\t{}\t{}\t{}\t{}\n",
                            path, callee, resolved, line, exp, self_ty.replace(['\t', '\n'], " ")
                        ));
                    }
                }
                _ => {
                    out.push_str(&format!("{}\t<indirect>\t\t{}\t{}\t\n", path, line, exp));
                }
            }
        }
    }
    (nfn, ncalls, nres)
}

fn dump_items<'tcx>(tcx: TyCtxt<'tcx>, out: &mut String) -> usize {
    let mut n = 0;
    for id in tcx.hir_crate_items(()).definitions() {
        let did = id.to_def_id();
        let kind = tcx.def_kind(did);
        let (file, line) = line_of(tcx, tcx.def_span(did));
        let head = |k: &str| {
            format!(
                "{{\"item\":{},\"name\":{},\"file\":{},\"line\":{}",
                esc(k),
                esc(&qname(tcx, did)),
                esc(&file),
                line
            )
        };
        match kind {
            DefKind::Const { .. } | DefKind::AssocConst { .. } => {
                let ty = tcx.type_of(did).instantiate_identity().skip_norm_wip();
                let mut val = String::from("null");
                if tcx.generics_of(did).count() == 0 {
                    if let Ok(cv) = tcx.const_eval_poly(did) {
                        if let Some(sc) = cv.try_to_scalar_int() {
                            let bits = sc.to_bits_unchecked();
                            let size = sc.size().bytes();
                            // signed types: sign extend
                            let signed = matches!(ty.kind(), ty::Int(_));
                            if signed && size < 16 {
                                let sh = 128 - size * 8;
                                let v = ((bits << sh) as i128) >> sh;
                                val = format!("\"{}\"", v);
                            } else {
                                val = format!("\"{}\"", bits);
                            }
                        }
                    }
                }
                out.push_str(&format!("{},\"ty\":{},\"val\":{}}}\n", head("const"), esc(&format!("{}", ty)), val));
                n += 1;
            }
            DefKind::Static { .. } => {
                let ty = tcx.type_of(did).instantiate_identity().skip_norm_wip();
                out.push_str(&format!("{},\"ty\":{}}}\n", head("static"), esc(&format!("{}", ty))));
                n += 1;
            }
            DefKind::Enum | DefKind::Struct => {
                let adt = tcx.adt_def(did);
                let discrs: Vec<String> = if kind == DefKind::Enum {
                    adt.discriminants(tcx).map(|(_, d)| format!("{}", d.val)).collect()
                } else {
                    Vec::new()
                };
                let mut vs = String::from("[");
                for (i, v) in adt.variants().iter().enumerate() {
                    if i > 0 {
                        vs.push(',');
                    }
                    let fs: Vec<String> = v
                        .fields
                        .iter()
                        .map(|f| {
                            let fty = tcx.type_of(f.did).instantiate_identity().skip_norm_wip();
                            format!("{{\"f\":{},\"ty\":{}}}", esc(f.name.as_str()), esc(&format!("{}", fty)))
                        })
                        .collect();
                    let dj = match discrs.get(i) {
                        Some(d) => format!(",\"discr\":\"{}\"", d),
                        None => String::new(),
                    };
                    vs.push_str(&format!("{{\"v\":{},\"fields\":[{}]{}}}", esc(v.name.as_str()), fs.join(","), dj));
                }
                vs.push(']');
                out.push_str(&format!(
                    "{},\"variants\":{}}}\n",
                    head(if kind == DefKind::Enum { "enum" } else { "struct" }),
                    vs
                ));
                n += 1;
            }
            DefKind::Impl { of_trait } => {
                let self_ty = tcx.type_of(did).instantiate_identity().skip_norm_wip();
                let tr = if of_trait {
                    let t = tcx.impl_trait_ref(did).instantiate_identity().skip_norm_wip();
                    esc(&qname(tcx, t.def_id))
                } else {
                    "null".to_string()
                };
                let derived = tcx.is_automatically_derived(did);
                let ms: Vec<String> = tcx
                    .associated_items(did)
                    .in_definition_order()
                    .filter_map(|a| a.opt_name().map(|n| esc(n.as_str())))
                    .collect();
                out.push_str(&format!(
                    "{},\"self_ty\":{},\"trait\":{},\"derived\":{},\"assoc\":[{}]}}\n",
                    head("impl"),
                    esc(&format!("{}", self_ty)),
                    tr,
                    derived,
                    ms.join(",")
                ));
                n += 1;
            }
            DefKind::Fn | DefKind::AssocFn => {
                let vis = format!("{:?}", tcx.visibility(did));
                out.push_str(&format!("{},\"vis\":{}}}\n", head("fn"), esc(&vis)));
                n += 1;
            }
            DefKind::Trait => {
                let ms: Vec<String> = tcx
                    .associated_items(did)
                    .in_definition_order()
                    .filter_map(|a| a.opt_name().map(|n| format!("{{\"n\":{},\"default\":{}}}", esc(n.as_str()), a.defaultness(tcx).has_value())))
                    .collect();
                out.push_str(&format!("{},\"assoc\":[{}]}}\n", head("trait"), ms.join(",")));
                n += 1;
            }
            _ => {}
        }
    }
    n
}

fn dump_hir<'tcx>(tcx: TyCtxt<'tcx>, out: &mut String) -> usize {
    let mut n = 0;
    for ldid in tcx.hir_body_owners() {
        let did = ldid.to_def_id();
        let kind = tcx.def_kind(did);
        let k = match kind {
            DefKind::Fn => "fn",
            DefKind::AssocFn => "assocfn",
            DefKind::Static { .. } => "static",
            DefKind::Const { .. } => "const",
            DefKind::AssocConst { .. } => "assocconst",
            _ => continue,
        };
        let path = qname(tcx, did);
        let body = tcx.hir_body_owned_by(ldid);
        let tr = tcx.typeck(ldid);
        let mut j = hirjson::J { tcx, tr, owner: ldid, out: String::new() };
        let mut params = String::from("[");
        for (i, p) in body.params.iter().enumerate() {
            if i > 0 {
                params.push(',');
            }
            let mut pj = hirjson::J { tcx, tr, owner: ldid, out: String::new() };
            pj.pat(p.pat);
            let pty = tr.pat_ty(p.pat);
            params.push_str(&format!("{{\"pat\":{},\"ty\":{}}}", pj.out, esc(&format!("{}", pty))));
        }
        params.push(']');
        j.expr(body.value);
        let (file, line) = line_of(tcx, tcx.def_span(did));
        let ret = format!("{}", tr.expr_ty(body.value));
        out.push_str(&format!(
            "{{\"fn\":{},\"kind\":{},\"file\":{},\"line\":{},\"params\":{},\"ret\":{},\"body\":{}}}\n",
            esc(&path),
            esc(k),
            esc(&file),
            line,
            params,
            esc(&ret),
            j.out
        ));
        n += 1;
    }
    n
}

impl rustc_driver::Callbacks for Cb {
    fn after_analysis<'tcx>(&mut self, _c: &rustc_interface::interface::Compiler, tcx: TyCtxt<'tcx>) -> Compilation {
        let Ok(dir) = std::env::var("KV_OUT") else { return Compilation::Continue };
        let krate = tcx.crate_name(rustc_span::def_id::LOCAL_CRATE).to_string();
        if krate.starts_with("build_script_") {
            return Compilation::Continue;
        }
        let ctype = tcx
            .crate_types()
            .first()
            .map(|t| format!("{:?}", t).to_lowercase())
            .unwrap_or_else(|| "unknown".into());
        let ctype = if ctype.contains("executable") { "bin".to_string() } else { "lib".to_string() };
        let stem = format!("{}/{}.{}", dir, krate, ctype);
        std::fs::create_dir_all(&dir).ok();
        rustc_middle::ty::print::with_no_trimmed_paths!(rustc_middle::ty::print::with_no_visible_paths!({
            let mut calls = String::new();
            let (nfn, ncalls, nres) = dump_calls(tcx, &mut calls);
            std::fs::write(format!("{}.calls.tsv", stem), calls.as_bytes()).unwrap();
            let mut items = String::new();
            let nitems = dump_items(tcx, &mut items);
            std::fs::write(format!("{}.items.jsonl", stem), items.as_bytes()).unwrap();
            let mut hir = String::new();
            let nhir = dump_hir(tcx, &mut hir);
            std::fs::write(format!("{}.hir.jsonl", stem), hir.as_bytes()).unwrap();
            let nonce = std::env::var("KV_NONCE").unwrap_or_default();
            std::fs::write(
                format!("{}.done", stem),
                format!(
                    "{{\"nonce\":{},\"crate\":{},\"kind\":{},\"mir_bodies\":{},\"calls\":{},\"resolved\":{},\"items\":{},\"hir_bodies\":{}}}\n",
                    esc(&nonce), esc(&krate), esc(&ctype), nfn, ncalls, nres, nitems, nhir
                ),
            )
            .unwrap();
        }));
        Compilation::Continue
    }
}

fn main() {
    let mut args: Vec<String> = std::env::args().collect();
    // RUSTC_WORKSPACE_WRAPPER passes: wrapper rustc args...
    args.remove(1);
    let mut cb = Cb;
    rustc_driver::run_compiler(&args, &mut cb);
}
