// Faithful, name-resolved serialisation of HIR bodies to JSON (see DESIGN.md 3.1).
#![allow(unreachable_patterns)]
extern crate rustc_ast;
use rustc_hir as hir;
use rustc_hir::def::{DefKind, Res};
use rustc_middle::ty::{self, Instance, TyCtxt, TypingEnv};
use rustc_span::def_id::{DefId, LocalDefId};

pub struct J<'tcx> {
    pub tcx: TyCtxt<'tcx>,
    pub tr: &'tcx ty::TypeckResults<'tcx>,
    pub owner: LocalDefId,
    pub out: String,
}

pub fn esc(s: &str) -> String {
    let mut o = String::with_capacity(s.len() + 2);
    o.push('"');
    for c in s.chars() {
        match c {
            '"' => o.push_str("\\\""),
            '\\' => o.push_str("\\\\"),
            '\n' => o.push_str("\\n"),
            '\t' => o.push_str("\\t"),
            '\r' => o.push_str("\\r"),
            c if (c as u32) < 0x20 => o.push_str(&format!("\\u{:04x}", c as u32)),
            c => o.push(c),
        }
    }
    o.push('"');
    o
}

pub fn qname(tcx: TyCtxt<'_>, d: DefId) -> String {
    if d.is_local() {
        format!("{}::{}", tcx.crate_name(d.krate), tcx.def_path_str(d))
    } else {
        tcx.def_path_str(d)
    }
}

impl<'tcx> J<'tcx> {
    fn k(&mut self, key: &str) {
        self.out.push_str(&esc(key));
        self.out.push(':');
    }
    fn kv(&mut self, key: &str, v: &str) {
        self.k(key);
        self.out.push_str(&esc(v));
    }
    fn span(&mut self, sp: rustc_span::Span) {
        let sm = self.tcx.sess.source_map();
        let lo = sm.lookup_char_pos(sp.lo());
        self.k("line");
        self.out.push_str(&format!("{}", lo.line));
        if sp.from_expansion() {
            self.out.push_str(",\"exp\":true");
        }
    }
    fn res(&mut self, r: Res) {
        match r {
            Res::Def(k, d) => {
                self.out.push('{');
                self.kv("def", &qname(self.tcx, d));
                self.out.push(',');
                self.kv("kind", &format!("{:?}", k));
                self.out.push('}');
            }
            Res::Local(h) => {
                self.out.push('{');
                self.k("local");
                self.out.push_str(&format!("{}", h.local_id.as_u32()));
                self.out.push(',');
                self.kv("name", self.tcx.hir_name(h).as_str());
                self.out.push('}');
            }
            other => {
                self.out.push('{');
                self.kv("res", &format!("{:?}", other));
                self.out.push('}');
            }
        }
    }
    fn lit(&mut self, l: &rustc_ast::LitKind, neg: bool) {
        use rustc_ast::LitKind::*;
        match l {
            Str(s, _) => {
                self.kv("lk", "str");
                self.out.push(',');
                self.kv("v", s.as_str());
            }
            Int(n, _) => {
                self.kv("lk", "int");
                self.out.push(',');
                self.kv("v", &format!("{}{}", if neg { "-" } else { "" }, n.get()));
            }
            Bool(b) => {
                self.kv("lk", "bool");
                self.out.push(',');
                self.kv("v", if *b { "true" } else { "false" });
            }
            Char(c) => {
                self.kv("lk", "char");
                self.out.push(',');
                self.kv("v", &c.to_string());
            }
            other => {
                self.kv("lk", "other");
                self.out.push(',');
                self.kv("v", &format!("{:?}", other));
            }
        }
    }
    fn qpath(&mut self, q: &hir::QPath<'tcx>, id: hir::HirId) {
        let r = self.tr.qpath_res(q, id);
        self.res(r);
    }
    fn list<T>(&mut self, xs: &[T], mut f: impl FnMut(&mut Self, &T)) {
        self.out.push('[');
        for (i, x) in xs.iter().enumerate() {
            if i > 0 {
                self.out.push(',');
            }
            f(self, x);
        }
        self.out.push(']');
    }
    pub fn pat(&mut self, p: &hir::Pat<'tcx>) {
        use hir::PatKind::*;
        self.out.push('{');
        match &p.kind {
            Wild => self.kv("p", "wild"),
            Binding(mode, id, ident, sub) => {
                self.kv("p", "bind");
                self.out.push(',');
                if mode.1.is_mut() {
                    self.out.push_str("\"mut\":true,");
                }
                self.k("local");
                self.out.push_str(&format!("{}", id.local_id.as_u32()));
                self.out.push(',');
                self.kv("name", ident.as_str());
                if let Some(s) = sub {
                    self.out.push(',');
                    self.k("sub");
                    self.pat(s);
                }
            }
            Struct(q, fs, _) => {
                self.kv("p", "struct");
                self.out.push(',');
                self.k("path");
                self.qpath(q, p.hir_id);
                self.out.push(',');
                self.k("fields");
                self.list(fs, |s, f| {
                    s.out.push('{');
                    s.kv("f", f.ident.as_str());
                    s.out.push(',');
                    s.k("pat");
                    s.pat(f.pat);
                    s.out.push('}');
                });
            }
            TupleStruct(q, ps, _) => {
                self.kv("p", "tstruct");
                self.out.push(',');
                self.k("path");
                self.qpath(q, p.hir_id);
                self.out.push(',');
                self.k("pats");
                self.list(ps, |s, x| s.pat(x));
            }
            Or(ps) => {
                self.kv("p", "or");
                self.out.push(',');
                self.k("pats");
                self.list(ps, |s, x| s.pat(x));
            }
            Tuple(ps, _) => {
                self.kv("p", "tuple");
                self.out.push(',');
                self.k("pats");
                self.list(ps, |s, x| s.pat(x));
            }
            Ref(x, ..) | Box(x) | Deref(x) => {
                self.kv("p", "ref");
                self.out.push(',');
                self.k("pat");
                self.pat(x);
            }
            Expr(pe) => {
                self.kv("p", "expr");
                self.out.push(',');
                match &pe.kind {
                    hir::PatExprKind::Path(q) => {
                        self.k("path");
                        self.qpath(q, pe.hir_id);
                    }
                    hir::PatExprKind::Lit { lit, negated } => {
                        self.lit(&lit.node, *negated);
                    }
                    _ => self.kv("other", "constblock"),
                }
            }
            Slice(a, m, b) => {
                self.kv("p", "slice");
                self.out.push(',');
                self.k("pats");
                self.list(a, |s, x| s.pat(x));
                if m.is_some() {
                    self.out.push_str(",\"rest\":true");
                }
                self.out.push(',');
                self.k("after");
                self.list(b, |s, x| s.pat(x));
            }
            Range(lo, hi, end) => {
                self.kv("p", "range");
                self.out.push(',');
                self.kv("end", &format!("{:?}", end));
                for (nm, pe) in [("lo", lo), ("hi", hi)] {
                    if let Some(pe) = pe {
                        self.out.push(',');
                        self.k(nm);
                        self.out.push('{');
                        match &pe.kind {
                            hir::PatExprKind::Path(q) => {
                                self.k("path");
                                self.qpath(q, pe.hir_id);
                            }
                            hir::PatExprKind::Lit { lit, negated } => self.lit(&lit.node, *negated),
                            _ => self.kv("other", "constblock"),
                        }
                        self.out.push('}');
                    }
                }
            }
            other => {
                self.kv("p", "other");
                self.out.push(',');
                self.kv("dbg", &format!("{:?}", std::mem::discriminant(other)));
            }
        }
        self.out.push('}');
    }
    fn block(&mut self, b: &hir::Block<'tcx>) {
        self.out.push('{');
        self.kv("e", "block");
        self.out.push(',');
        self.k("stmts");
        self.list(b.stmts, |s, st| s.stmt(st));
        if let Some(e) = b.expr {
            self.out.push(',');
            self.k("tail");
            self.expr(e);
        }
        self.out.push('}');
    }
    fn stmt(&mut self, st: &hir::Stmt<'tcx>) {
        match &st.kind {
            hir::StmtKind::Let(l) => {
                self.out.push('{');
                self.kv("s", "let");
                self.out.push(',');
                self.k("pat");
                self.pat(l.pat);
                if let Some(i) = l.init {
                    self.out.push(',');
                    self.k("init");
                    self.expr(i);
                }
                if let Some(els) = l.els {
                    self.out.push(',');
                    self.k("else");
                    self.block(els);
                }
                self.out.push('}');
            }
            hir::StmtKind::Expr(e) | hir::StmtKind::Semi(e) => {
                self.out.push('{');
                self.kv("s", "expr");
                self.out.push(',');
                self.k("x");
                self.expr(e);
                self.out.push('}');
            }
            hir::StmtKind::Item(_) => {
                self.out.push_str("{\"s\":\"item\"}");
            }
        }
    }
    fn callee_of(&mut self, did: DefId, id: hir::HirId) {
        self.kv("callee", &qname(self.tcx, did));
        let args = self.tr.node_args(id);
        let te = TypingEnv::post_analysis(self.tcx, self.owner.to_def_id());
        if args.len() != self.tcx.generics_of(did).count() {
            self.out.push_str(",\"args_mismatch\":true");
            return;
        }
        if let Ok(Some(inst)) = Instance::try_resolve(self.tcx, te, did, args) {
            if inst.def_id() != did {
                self.out.push(',');
                self.kv("resolved", &qname(self.tcx, inst.def_id()));
            }
        }
    }
    pub fn expr(&mut self, e: &hir::Expr<'tcx>) {
        use hir::ExprKind::*;
        self.out.push('{');
        self.span(e.span);
        self.out.push(',');
        match &e.kind {
            Call(f, args) => {
                self.kv("e", "call");
                self.out.push(',');
                self.kv("ty", &format!("{}", self.tr.expr_ty(e)));
                self.out.push(',');
                let mut done = false;
                if let Path(q) = &f.kind {
                    if let Res::Def(k, d) = self.tr.qpath_res(q, f.hir_id) {
                        match k {
                            DefKind::Ctor(..) => {
                                self.kv("ctor", &qname(self.tcx, d));
                                done = true;
                            }
                            DefKind::Fn | DefKind::AssocFn => {
                                self.callee_of(d, f.hir_id);
                                done = true;
                            }
                            _ => {}
                        }
                    }
                }
                if !done {
                    self.k("fun");
                    self.expr(f);
                }
                self.out.push(',');
                self.k("args");
                self.list(args, |s, a| s.expr(a));
            }
            MethodCall(seg, recv, args, _) => {
                self.kv("e", "mcall");
                self.out.push(',');
                self.kv("ty", &format!("{}", self.tr.expr_ty(e)));
                self.out.push(',');
                self.kv("name", seg.ident.as_str());
                self.out.push(',');
                if let Some(d) = self.tr.type_dependent_def_id(e.hir_id) {
                    self.callee_of(d, e.hir_id);
                    self.out.push(',');
                }
                self.kv("recv_ty", &format!("{}", self.tr.expr_ty_adjusted(recv)));
                self.out.push(',');
                self.k("recv");
                self.expr(recv);
                self.out.push(',');
                self.k("args");
                self.list(args, |s, a| s.expr(a));
            }
            Binary(op, l, r) => {
                self.kv("e", "bin");
                self.out.push(',');
                self.kv("op", op.node.as_str());
                self.out.push(',');
                self.k("l");
                self.expr(l);
                self.out.push(',');
                self.k("r");
                self.expr(r);
            }
            Unary(op, x) => {
                self.kv("e", "un");
                self.out.push(',');
                self.kv("op", &format!("{:?}", op));
                self.out.push(',');
                self.k("x");
                self.expr(x);
            }
            Lit(l) => {
                self.kv("e", "lit");
                self.out.push(',');
                self.lit(&l.node, false);
            }
            Cast(x, _) => {
                self.kv("e", "wrap");
                self.out.push(',');
                self.kv("cast", &format!("{}", self.tr.expr_ty(e)));
                self.out.push(',');
                self.k("x");
                self.expr(x);
            }
            Type(x, _) | DropTemps(x) | AddrOf(_, _, x) | Use(x, _) => {
                // transparent wrappers
                self.kv("e", "wrap");
                self.out.push(',');
                self.k("x");
                self.expr(x);
            }
            Let(l) => {
                self.kv("e", "let");
                self.out.push(',');
                self.k("pat");
                self.pat(l.pat);
                self.out.push(',');
                self.k("init");
                self.expr(l.init);
            }
            If(c, t, els) => {
                self.kv("e", "if");
                self.out.push(',');
                self.k("cond");
                self.expr(c);
                self.out.push(',');
                self.k("then");
                self.expr(t);
                if let Some(x) = els {
                    self.out.push(',');
                    self.k("else");
                    self.expr(x);
                }
            }
            Loop(b, _, src, _) => {
                self.kv("e", "loop");
                self.out.push(',');
                self.kv("src", &format!("{:?}", src));
                self.out.push(',');
                self.k("body");
                self.block(b);
            }
            Match(scrut, arms, src) => {
                self.kv("e", "match");
                self.out.push(',');
                self.kv("src", &format!("{:?}", src));
                self.out.push(',');
                self.kv("scrut_ty", &format!("{}", self.tr.expr_ty(scrut)));
                self.out.push(',');
                self.k("scrut");
                self.expr(scrut);
                self.out.push(',');
                self.k("arms");
                self.list(arms, |s, a| {
                    s.out.push('{');
                    s.k("pat");
                    s.pat(a.pat);
                    if let Some(g) = a.guard {
                        s.out.push(',');
                        s.k("guard");
                        s.expr(g);
                    }
                    s.out.push(',');
                    s.k("body");
                    s.expr(a.body);
                    s.out.push('}');
                });
            }
            Closure(c) => {
                self.kv("e", "closure");
                self.out.push(',');
                self.kv("kind", &format!("{:?}", c.kind));
                self.out.push(',');
                self.kv("def", &qname(self.tcx, c.def_id.to_def_id()));
                self.out.push(',');
                let body = self.tcx.hir_body(c.body);
                // closures have their own typeck results root? they share the owner's
                self.k("params");
                self.list(body.params, |s, p| s.pat(p.pat));
                self.out.push(',');
                self.k("body");
                self.expr(body.value);
            }
            Block(b, _) => {
                self.kv("e", "blockexpr");
                self.out.push(',');
                self.k("b");
                self.block(b);
            }
            Assign(l, r, _) => {
                self.kv("e", "assign");
                self.out.push(',');
                self.k("l");
                self.expr(l);
                self.out.push(',');
                self.k("r");
                self.expr(r);
            }
            AssignOp(op, l, r) => {
                self.kv("e", "assignop");
                self.out.push(',');
                self.kv("op", op.node.as_str());
                self.out.push(',');
                self.k("l");
                self.expr(l);
                self.out.push(',');
                self.k("r");
                self.expr(r);
            }
            Field(x, ident) => {
                self.kv("e", "field");
                self.out.push(',');
                self.kv("f", ident.as_str());
                self.out.push(',');
                self.kv("xty", &format!("{}", self.tr.expr_ty_adjusted(x)));
                self.out.push(',');
                self.k("x");
                self.expr(x);
            }
            Index(a, b, _) => {
                self.kv("e", "index");
                self.out.push(',');
                self.k("x");
                self.expr(a);
                self.out.push(',');
                self.k("i");
                self.expr(b);
            }
            Path(q) => {
                self.kv("e", "path");
                self.out.push(',');
                self.k("res");
                self.qpath(q, e.hir_id);
            }
            Break(dest, x) => {
                self.kv("e", "break");
                if let Some(l) = dest.label {
                    self.out.push(',');
                    self.kv("label", l.ident.as_str());
                }
                if let Some(x) = x {
                    self.out.push(',');
                    self.k("x");
                    self.expr(x);
                }
            }
            Continue(_) => self.kv("e", "continue"),
            Ret(x) => {
                self.kv("e", "ret");
                if let Some(x) = x {
                    self.out.push(',');
                    self.k("x");
                    self.expr(x);
                }
            }
            Struct(q, fields, base) => {
                self.kv("e", "struct");
                self.out.push(',');
                self.k("path");
                self.qpath(q, e.hir_id);
                self.out.push(',');
                self.k("fields");
                self.list(fields, |s, f| {
                    s.out.push('{');
                    s.kv("f", f.ident.as_str());
                    s.out.push(',');
                    s.k("x");
                    s.expr(f.expr);
                    s.out.push('}');
                });
                if let hir::StructTailExpr::Base(b) = base {
                    self.out.push(',');
                    self.k("base");
                    self.expr(b);
                }
            }
            Array(xs) => {
                self.kv("e", "array");
                self.out.push(',');
                self.k("xs");
                self.list(xs, |s, x| s.expr(x));
            }
            Tup(xs) => {
                self.kv("e", "tuple");
                self.out.push(',');
                self.k("xs");
                self.list(xs, |s, x| s.expr(x));
            }
            Yield(x, _) => {
                self.kv("e", "yield");
                self.out.push(',');
                self.k("x");
                self.expr(x);
            }
            other => {
                self.kv("e", "other");
                self.out.push(',');
                self.kv("dbg", &format!("{:?}", std::mem::discriminant(other)));
            }
        }
        self.out.push('}');
    }
}
