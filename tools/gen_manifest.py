#!/usr/bin/env python3
"""Regenerates MANIFEST.json from the META dict of every rules/Cxx.py (run from /verif)."""
import importlib
import json
import os
import sys

VERIF = os.path.dirname(os.path.dirname(os.path.abspath(__file__)))
sys.path.insert(0, VERIF)

NOT_APPLICABLE = {}

# checks that exist but are withheld from the manifest for the moment (reason shown under not_applicable)
HOLD = {
}
NOT_APPLICABLE.update(HOLD)

ids = [json.loads(l)["id"] for l in open(os.path.join(VERIF, "properties.jsonl"))]
checks = []
na = []
served = []
for i in ids:
    p = os.path.join(VERIF, "rules", i + ".py")
    if i in NOT_APPLICABLE:
        na.append({"property_id": i, "reason": NOT_APPLICABLE[i]})
        continue
    if not os.path.exists(p):
        na.append({"property_id": i, "reason": "check not yet built (temporary; DESIGN.md section 5 has the plan)"})
        continue
    m = importlib.import_module("rules." + i)
    meta = getattr(m, "META", None)
    if not meta or meta.get("disabled"):
        na.append({"property_id": i, "reason": (meta or {}).get("disabled") or "rule module has no META (not registered yet)"})
        continue
    served.append(i)
    checks.append({
        "property_id": i,
        "quick_cmd": f"./check {i} --tier quick",
        "thorough_cmd": f"./check {i} --tier thorough",
        "evidence_file": f"/verif/evidence/{i}.json",
        "replay_cmd_template": f"./check {i} --replay {{path}}",
        "engine": "kvfacts+rules",
        "level_claimed": {"category": getattr(m, "LEVEL", "other"), "text": meta["level_text"],
                          "design_ref": meta.get("design_ref", f"DESIGN.md section 5, {i}")},
        "level_note": meta["level_note"],
        "technique": meta["technique"],
    })

man = {
    "version": 1,
    "setup_cmd": "python3 rules/lib/facts.py",
    "hooks": {
        "guard": "kanidm_verif",
        "enable": "none needed: the fact extractor reads unmodified source through the compiler (RUSTC_WORKSPACE_WRAPPER under cargo +nightly check)",
        "baseline_off_cmd": ". /w/out/rust_env.sh; cd /repo && cargo nextest run --workspace --no-fail-fast --tool-config-file pb:/w/lib/nextest.toml --profile pb --test-threads 8 --offline",
        "source_commits": [],
        "add_only": True,
    },
    "engines": [
        {"name": "kvfacts", "path": "driver/", "serves_properties": served,
         "kind_free_text": "rustc_private driver (nightly) run as RUSTC_WORKSPACE_WRAPPER: emits resolved HIR bodies, MIR call facts and item facts for every workspace crate of /repo's working tree"},
        {"name": "rules", "path": "rules/", "serves_properties": served,
         "kind_free_text": "Python static rules over the facts: who-may-call, pipeline order, sink path-conditions, decision tables, variant-map agreement, finite-domain evaluation of extracted templates, constant tables, call-graph reachability"},
    ],
    "checks": checks,
    "notes": "All checks are static: nothing executes kanidm code. Facts are re-extracted whenever /repo's working tree hash changes. Known findings: known_findings.json. Design: DESIGN.md.",
    "not_applicable": na,
}
json.dump(man, open(os.path.join(VERIF, "MANIFEST.json"), "w"), indent=1)
print(f"checks={len(checks)} not_applicable={len(na)}")
