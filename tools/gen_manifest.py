#!/usr/bin/env python3
"""Regenerates MANIFEST.json from the META dict of every rules/Cxx.py (run from /verif)."""
import importlib
import json
import os
import sys

VERIF = os.path.dirname(os.path.dirname(os.path.abspath(__file__)))
sys.path.insert(0, VERIF)

NOT_APPLICABLE = {}

# checks that exist but are withheld from the manifest for the moment (reason shown under not_applicable)
HOLD = {
}
NOT_APPLICABLE.update(HOLD)


# clauses added after the seeded-change rounds (appended to the rule author's level_text)
ADDENDA = {
 "C03": "Also decides that every index key generator returns a duplicate-free list (sort before dedup, over the whole result) — idx_diff's merge walk is only a set difference then.",
 "C06": "Also decides that a read transaction opens an SQL transaction (BEGIN) on its connection before it is constructed.",
 "C08": "Also decides that both replication encoders transmit every attribute change id, skipping attributes only for schema/range reasons, never because of the entry's values.",
 "C09": "Also decides that the incremental consumer hands every incoming entry to the conflict/merge tables (nothing removed or filtered before). Also decides that no tombstone row of the state table is decided under a guard.",
 "C11": "Also decides the trim rules: only revocations older than the trim point are dropped, and a forced size trim never looks at the session state.",
 "C12": "Also decides field routing for passwords: every Kdf field is stored in, and read back from, the same field (writer then reader is the identity on fields); and that the OAuth2 session set's derived resource-server filter is only ever accumulated (|=) by its decoders and mutators.",
 "C13": "Also decides that the RUV delta functions consult the cleared-in-this-transaction marker that restore() sets.",
 "C15": "Also decides that the schema check's exemption for class conflict is only usable on recycled entries (conflict added with recycled, removed with it), and that every write path refreshes the cached schema.",
 "C16": "Also decides that no ValueSetT::remove removes references inside the closure of a short-circuiting iterator adapter. Also decides that post_repl_incremental's liveness tests treat recycled and tombstoned alike (mask_recycled_ts on both images). Also decides that the plugin's existence test holds per referenced uuid (today it does not: known finding F18).",
 "C17": "Also decides that the leaf write-back change test compares every attribute the plugin recomputed.",
 "C18": "Also decides that apply_dyngroup_change overwrites the cached filter of every dynamic group it processes.",
 "C20": "Also rejects any arm (guarded or not) that takes an attribute-bearing Modify variant past the uuid test.",
 "C21": "Also decides that each GidNumber hook runs over the whole candidate list (no filtering adapter).",
 "C22": "Also decides that Spn::modify_inner sets the spn of every account/group candidate under the class test only.",
 "C24": "Also decides that every write path, replication included, refreshes the cached access control profiles, and that every field of a parsed create/modify profile is read from its own stored attribute (class lists fall back to acp_modify_class only).",
 "C23": "Also decides that the readable attribute set, receiver and target of a parsed search profile are read from their own stored attributes.",
 "C26": "Also decides that revive accumulates one membership modification per revived entry and group.",
 "C27": "Also decides that an AuthState::Denied reply is built only by the session's own state functions (which record the denial), never by the caller.",
 "C28": "Also decides that soft-lock policies are produced only from the credential (no constant policy on an authentication path). Also decides that the hash-upgrade paths cannot reach a credential constructor or a fresh uuid (the soft lock is keyed by the credential uuid) and that upgrade_password restores its own uuid.",
 "C31": "Also decides that every write path, replication included, refreshes the cached system configuration (badlist).",
 "C32": "Also decides that entry lookups on the token-to-identity paths hide recycled and tombstoned entries, and that every call of check_within_valid_time feeds the lower bound from valid_from and the upper from expire.",
 "C33": "Also decides that the privilege window of a re-issued token depends only on the current time and the policy's privilege_expiry() (other inputs only as a min() bound).",
 "C34": "Also decides that every write path, replication included, reloads key material, with a class-only condition on the replication path.",
 "C35": "Also decides that every field of a parsed group policy is read from its own stored attribute. Also decides that the policies folded are those of the groups in the account's memberof (not only direct ones) and that nothing shortens the iterator before the fold.",
 "C38": "Also decides that the scope maps, supplementary scope maps, claim map and origin lists of a loaded client are read from their own stored attributes. Also decides that the loaded client set is rebuilt wholesale on reload.",
 "C40": "Also decides that the executed filter and the access-checked filter of LDAP search/compare events come from the same client filter. Also decides that the application cache the LDAP bind consults is rebuilt wholesale on reload.",
 "C42": "Also requires the request grammar to hand on the current nesting budget in every recursive alternative (no fresh restart).",
 "C43": "Also decides that the client drops its cached stream after any failed exchange, so a late reply cannot answer the next request.",
 "C44": "Also decides that resolver methods read the cached token only after taking the single-writer lock when they write a token back.",
 "C45": "Also decides that a successful offline authentication writes back the latest cached record, not the session snapshot.",
 "C48": "Also decides that an existing built-in entry can only be left as is through the assert-modify (no success shortcut).",
 "C49": "Also decides that valid_from / expire / radius_secret of every parsed account struct are read from account_valid_from / account_expire / radius_secret.",
 "C14": "Also decides that the tokio Decoder/Encoder impls of both codecs are pure delegations to the two table-checked functions.",
}

ids = [json.loads(l)["id"] for l in open(os.path.join(VERIF, "properties.jsonl"))]
checks = []
na = []
served = []
for i in ids:
    p = os.path.join(VERIF, "rules", i + ".py")
    if i in NOT_APPLICABLE:
        na.append({"property_id": i, "reason": NOT_APPLICABLE[i]})
        continue
    if not os.path.exists(p):
        na.append({"property_id": i, "reason": "check not yet built (temporary; DESIGN.md section 5 has the plan)"})
        continue
    m = importlib.import_module("rules." + i)
    meta = getattr(m, "META", None)
    if not meta or meta.get("disabled"):
        na.append({"property_id": i, "reason": (meta or {}).get("disabled") or "rule module has no META (not registered yet)"})
        continue
    served.append(i)
    checks.append({
        "property_id": i,
        "quick_cmd": f"./check {i} --tier quick",
        "thorough_cmd": f"./check {i} --tier thorough",
        "evidence_file": f"/verif/evidence/{i}.json",
        "replay_cmd_template": f"./check {i} --replay {{path}}",
        "engine": "kvfacts+rules",
        "level_claimed": {"category": getattr(m, "LEVEL", "other"), "text": meta["level_text"] + ((" " + ADDENDA[i]) if i in ADDENDA else ""),
                          "design_ref": meta.get("design_ref", f"DESIGN.md section 5, {i}")},
        "level_note": meta["level_note"],
        "technique": meta["technique"],
    })

man = {
    "version": 1,
    "setup_cmd": "python3 rules/lib/facts.py",
    "hooks": {
        "guard": "kanidm_verif",
        "enable": "none needed: the fact extractor reads unmodified source through the compiler (RUSTC_WORKSPACE_WRAPPER under cargo +nightly check)",
        "baseline_off_cmd": ". /w/out/rust_env.sh; cd /repo && cargo nextest run --workspace --no-fail-fast --tool-config-file pb:/w/lib/nextest.toml --profile pb --test-threads 8 --offline",
        "source_commits": [],
        "add_only": True,
    },
    "engines": [
        {"name": "kvfacts", "path": "driver/", "serves_properties": served,
         "kind_free_text": "rustc_private driver (nightly) run as RUSTC_WORKSPACE_WRAPPER: emits resolved HIR bodies, MIR call facts and item facts for every workspace crate of /repo's working tree"},
        {"name": "rules", "path": "rules/", "serves_properties": served,
         "kind_free_text": "Python static rules over the facts: who-may-call, pipeline order, sink path-conditions, decision tables, variant-map agreement, finite-domain evaluation of extracted templates, constant tables, call-graph reachability"},
    ],
    "checks": checks,
    "notes": "All checks are static: nothing executes kanidm code. Facts are re-extracted whenever /repo's working tree hash changes. Known findings: known_findings.json. Design: DESIGN.md.",
    "not_applicable": na,
}
json.dump(man, open(os.path.join(VERIF, "MANIFEST.json"), "w"), indent=1)
print(f"checks={len(checks)} not_applicable={len(na)}")
