#!/usr/bin/env python3
"""Regenerates seeded/INDEX.md from seeded/*/meta.json."""
import glob, json, os
rows = []
for m in sorted(glob.glob("/verif/seeded/*/meta.json")):
    d = json.load(open(m))
    name = os.path.basename(os.path.dirname(m))
    det = d.get("detected_by") or []
    caught = "; ".join(f"{x['check']} {x['rule']} `{x['instance']}`" for x in det) if det else "**not detected**"
    note = " ".join(x.get("note", "") for x in det).strip()
    rows.append(f"| {name} | {d['breaks_property']} | {d['needs_to_manifest']} | {caught} | {note or d.get('note','')} |")
open("/verif/seeded/INDEX.md", "w").write(
    "# Seeded breaking changes\n\nEach directory holds `patch.diff` (the change), `demo.diff` (a new test that fails with the change and passes without it), "
    "`notes.md` (the author's account) and `meta.json` (what the coordinator ran to confirm it and which check reports it). The authors were independent "
    "sub-agents who saw only the property text and a scratch worktree — nothing from /verif.\n\n"
    "| seed | property | needs to manifest | detected by | note |\n|---|---|---|---|---|\n" + "\n".join(rows) + "\n")
print(len(rows), "seeds")
