import sys
sys.path.insert(0,'/verif')
from rules.lib.hir import *
from rules.lib.pathcond import *
from rules.lib import facts
F=Facts(facts.ensure_facts())
crate, pat, sinkpat = sys.argv[1:4]
for n in F.find_fns(crate, pat):
    d=F.fn(crate,n)
    def is_sink(x):
        if x.get('e')=='lit' and sinkpat.startswith('lit:') and x.get('v')==sinkpat[4:]: return True
        dd=def_of(x)
        if dd and ends(dd,sinkpat): return True
        if x.get('e') in('call','mcall') and is_call_to(x,sinkpat): return True
        return False
    binds=collect_binds(d['body'])
    for s,conds in site_conditions(d['body'],is_sink):
        print('==',n,'sink @',s.get('line'))
        for l in render(implied(conds,binds)):
            if 'tracing' in l or 'Level' in l: continue
            print('     ',l[:220])
        for b in render_blocked(blocked(conds)):
            if 'tracing' in b: continue
            print('   blocked:', b[:300])
