#!/bin/bash
# usage: seed_verify.sh <id> <crate> <demo-test-name-filter> [src-dir] [extra nextest args]
# Confirms a seeded change in the coordinator's own scratch worktree /tmp/seed/$V/repo:
#  (1) with patch: crate test suite passes (and the binary does NOT contain the demo test),
#  (2) with patch + demo: the demo test fails, (3) with demo only: the demo test passes.
# After every change the touched files get a fresh mtime (cargo's freshness check is mtime based).
id=$1; crate=$2; filt=$3
src=${4:-/tmp/seed/$id/out}
extra=${5:-}
V=${SEEDV:-V}
W=/tmp/seed/$V/repo
source /tmp/seed/$V/env.sh
cd $W && git checkout -q -- . && git clean -fdq
log=/tmp/seed/$V/verify_$id.log
: > $log
fresh() { sleep 1.2; git -C $W status --porcelain | awk '{print $2}' | while read f; do [ -f "$W/$f" ] && touch "$W/$f"; done; sleep 0.2; }
has_demo() { cargo nextest list -p $crate --offline 2>/dev/null | grep -c "$filt"; }
echo "== seed $id crate=$crate demo=$filt" | tee -a $log
git apply $src/patch.diff || { echo "PATCH does not apply" | tee -a $log; exit 2; }
fresh
cargo nextest run -p $crate --offline --no-fail-fast $extra > /tmp/seed/$V/run1_$id.log 2>&1
echo "(1) suite with patch [demo in binary: $(has_demo)]: $(grep -E 'Summary' /tmp/seed/$V/run1_$id.log | tail -1)" | tee -a $log
grep -E "^\s+FAIL " /tmp/seed/$V/run1_$id.log | sort -u | tee -a $log
git apply $src/demo.diff || { echo "DEMO does not apply on patch" | tee -a $log; }
fresh
cargo nextest run -p $crate --offline $extra -E "test($filt)" > /tmp/seed/$V/run2_$id.log 2>&1
echo "(2) demo with patch [demo in binary: $(has_demo)]: $(grep -E 'Summary' /tmp/seed/$V/run2_$id.log | tail -1)" | tee -a $log
git checkout -q -- . && git clean -fdq
git apply $src/demo.diff
fresh
cargo nextest run -p $crate --offline $extra -E "test($filt)" > /tmp/seed/$V/run3_$id.log 2>&1
echo "(3) demo without patch [demo in binary: $(has_demo)]: $(grep -E 'Summary' /tmp/seed/$V/run3_$id.log | tail -1)" | tee -a $log
git checkout -q -- . && git clean -fdq
fresh
