#!/bin/bash
# usage: seed_verify.sh <id> <crate> <demo-test-name-filter>
# Confirms a seeded change in the coordinator's own scratch worktree /tmp/seed/V/repo:
#  (1) with patch: crate test suite passes (failures compared with the baseline's stable list),
#  (2) with patch + demo: the demo test fails, (3) with demo only: the demo test passes.
id=$1; crate=$2; filt=$3
src=${4:-/tmp/seed/$id/out}
W=/tmp/seed/V/repo
source /tmp/seed/V/env.sh
cd $W && git checkout -q -- . && git clean -fdq
log=/tmp/seed/V/verify_$id.log
: > $log
echo "== seed $id crate=$crate demo=$filt" | tee -a $log
git apply $src/patch.diff || { echo "PATCH does not apply" | tee -a $log; exit 2; }
cargo nextest run -p $crate --offline --no-fail-fast > /tmp/seed/V/run1_$id.log 2>&1
echo "(1) suite with patch: $(grep -E 'Summary' /tmp/seed/V/run1_$id.log | tail -1)" | tee -a $log
grep -E "^\s+FAIL " /tmp/seed/V/run1_$id.log | sort -u | tee -a $log
git apply $src/demo.diff || { echo "DEMO does not apply on patch" | tee -a $log; }
cargo nextest run -p $crate --offline -E "test($filt)" > /tmp/seed/V/run2_$id.log 2>&1
echo "(2) demo with patch: $(grep -E 'Summary' /tmp/seed/V/run2_$id.log | tail -1)" | tee -a $log
git checkout -q -- . && git clean -fdq
git apply $src/demo.diff
cargo nextest run -p $crate --offline -E "test($filt)" > /tmp/seed/V/run3_$id.log 2>&1
echo "(3) demo without patch: $(grep -E 'Summary' /tmp/seed/V/run3_$id.log | tail -1)" | tee -a $log
git checkout -q -- . && git clean -fdq
