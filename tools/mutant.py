#!/usr/bin/env python3
"""Scratch-copy harness for testing the checks against a mutated /repo (never touches /repo's files).

  tools/mutant.py setup <name>                 create /tmp/kvm/<name>/repo (git worktree of /repo HEAD) + private cache
  tools/mutant.py run <name> <patch> <id>...   apply patch in the scratch repo, run ./check <id> for each id there, revert
  tools/mutant.py teardown <name>              remove the scratch worktree and its cache
Exit code of `run`: 0 if every check exited 0, 1 if any reported a violation, 2 on build error / patch failure.
"""
import os
import shutil
import subprocess
import sys

VERIF = os.path.dirname(os.path.dirname(os.path.abspath(__file__)))
ROOT = "/tmp/kvm"


def sh(cmd, **kw):
    return subprocess.run(cmd, shell=True, **kw)


def setup(name):
    d = os.path.join(ROOT, name)
    repo = os.path.join(d, "repo")
    if not os.path.isdir(repo):
        os.makedirs(d, exist_ok=True)
        r = sh(f"git -C /repo worktree add --detach {repo} HEAD >/dev/null 2>&1")
        if r.returncode != 0:
            sys.exit("worktree add failed")
    cache = os.path.join(d, "cache")
    if not os.path.isdir(os.path.join(cache, "target")):
        os.makedirs(cache, exist_ok=True)
        src = os.path.join(VERIF, ".cache", "target")
        # dependency artefacts only; the members are rebuilt anyway
        sh(f"rsync -a --exclude incremental {src}/ {cache}/target/")
    print(d)


def env_for(name):
    d = os.path.join(ROOT, name)
    e = dict(os.environ)
    e["KV_REPO"] = os.path.join(d, "repo")
    e["KV_CACHE"] = os.path.join(d, "cache")
    e["KV_EVIDENCE_DIR"] = os.path.join(d, "evidence")
    return e


def run(name, patch, ids):
    d = os.path.join(ROOT, name)
    repo = os.path.join(d, "repo")
    if not os.path.isdir(repo):
        setup(name)
    # one run at a time per scratch name
    import fcntl
    lk = open(os.path.join(d, "run.lock"), "w")
    fcntl.flock(lk, fcntl.LOCK_EX)
    sh(f"git -C {repo} checkout -q -- . && git -C {repo} clean -fdq")
    if patch not in ("-", "none"):
        r = sh(f"git -C {repo} apply {os.path.abspath(patch)}")
        if r.returncode != 0:
            print("PATCH-FAILED", patch)
            return 2
    rc = 0
    try:
        for i in ids:
            r = sh(f"{VERIF}/check {i}", env=env_for(name), cwd=VERIF)
            if r.returncode == 2:
                return 2
            rc = max(rc, r.returncode)
    finally:
        sh(f"git -C {repo} checkout -q -- . && git -C {repo} clean -fdq")
    return rc


def teardown(name):
    d = os.path.join(ROOT, name)
    sh(f"git -C /repo worktree remove --force {d}/repo >/dev/null 2>&1")
    shutil.rmtree(d, ignore_errors=True)
    sh("git -C /repo worktree prune")


if __name__ == "__main__":
    if len(sys.argv) < 3:
        sys.exit(__doc__)
    cmd, name = sys.argv[1], sys.argv[2]
    if cmd == "setup":
        setup(name)
    elif cmd == "run":
        sys.exit(run(name, sys.argv[3], sys.argv[4:]))
    elif cmd == "teardown":
        teardown(name)
    else:
        sys.exit(__doc__)
