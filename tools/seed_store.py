#!/usr/bin/env python3
"""seed_store.py <seed-dir-name> <property> '<needs>' '<detected-by json list>' [src]
Copies patch.diff / demo.diff / notes.md of a confirmed seeded change into /verif/seeded/<name>/ with meta.json."""
import json, os, shutil, sys
name, prop, needs, det = sys.argv[1:5]
src = sys.argv[5] if len(sys.argv) > 5 else f"/tmp/seed/{name}/out"
dst = f"/verif/seeded/{name}"
os.makedirs(dst, exist_ok=True)
for f in ("patch.diff", "demo.diff", "notes.md"):
    if os.path.exists(os.path.join(src, f)):
        shutil.copy(os.path.join(src, f), dst)
vlog = f"/tmp/seed/V/verify_{name}.log"
ran = open(vlog).read().strip().splitlines() if os.path.exists(vlog) else []
meta = {"breaks_property": prop, "needs_to_manifest": needs,
        "author": "independent sub-agent given only the property text and a scratch worktree",
        "confirmed_by_coordinator": ran,
        "commands": ["tools/seed_verify.sh (scratch worktree /tmp/seed/V/repo: suite with patch; demo with patch; demo without patch)",
                     "tools/mutant.py run coord seeded/%s/patch.diff <checks>" % name],
        "detected_by": json.loads(det)}
json.dump(meta, open(os.path.join(dst, "meta.json"), "w"), indent=1)
print(dst)
